//! C10 — clones of in-memory stores are independent and memory-safe.
//!
//! Histories over a small arena of live stores of one type (insert / remove / read /
//! clone / clone_from / drop / swap / move-to-heap / grow across hash-map resize thresholds).
//! Oracles:
//!  1. every live store equals its own model after every step (reads copy every byte of every
//!     returned string);
//!  2. the `verif_audit()` hook of `SimpleTermIndex` (cargo feature `verif_hooks` of
//!     sophia_inmem): every borrowed string of `i2t[i]` lies inside the key that *the same
//!     struct's* `t2i` maps to `i`. It is evaluated *before* any read, and a history stops at
//!     the first audit failure, so that the harness itself never reads released memory;
//!  3. thorough tier: the same histories replayed (without oracle 2) in a child process built
//!     with `-Zsanitizer=address`; any AddressSanitizer report is a failure, an unavailable
//!     ASan build or a watchdog timeout is inconclusive.
use crate::engine::*;
use crate::gen::*;
use crate::model::*;
use crate::pat::*;
use crate::stores::*;
use proptest::prelude::*;
use proptest::strategy::ValueTree;
use proptest::test_runner::{Config, RngAlgorithm, TestRng, TestRunner};
use serde::{Deserialize, Serialize};
use serde_json::json;
use sophia_inmem::index::{Index, SimpleTermIndex, TermIndex};
use std::io::{BufRead, Write};

const SLOTS: usize = 4;

#[derive(Clone, Debug, Serialize, Deserialize)]
pub enum Op {
    /// slot := fresh empty store (the previous occupant is dropped)
    New(u8),
    Insert(u8, MQ),
    Remove(u8, MQ),
    /// full enumeration + pattern query of one slot (every slot is read after every step anyway)
    Read(u8, QPat),
    /// to := from.clone() (the previous occupant of `to` is dropped)
    Clone(u8, u8),
    /// to.clone_from(&from)
    CloneFrom(u8, u8),
    Drop(u8),
    /// std::mem::swap of the two stores
    Swap(u8, u8),
    /// move the struct into a Box, then into a Vec that is re-allocated, and back
    MoveToHeap(u8),
    /// insert k quads made of fresh terms (crosses hash-map resize thresholds)
    Grow(u8, u16),
    /// insert one quad whose terms are *inconstant*: each position holds a list of values of one
    /// kind, and the term shows the next value of its list every time its main accessor is called
    /// (`Term` is a safe trait and nothing obliges an implementation to be idempotent). The content
    /// of the store afterwards is whatever it is (the model is re-read from the store), but the
    /// store must stay self-contained and internally consistent, and its siblings untouched.
    InsertFickle(u8, FQ),
    /// pattern-based removal (stores only; a bare index ignores it)
    RemoveMatching(u8, QPat),
}

/// per position: the successive values shown by the inconstant term (non-empty, all of one kind)
#[derive(Clone, Debug, Serialize, Deserialize)]
pub struct FQ {
    pub s: Vec<MT>,
    pub p: Vec<MT>,
    pub o: Vec<MT>,
    pub g: Option<Vec<MT>>,
}

/// A term whose accessors are not idempotent.
#[derive(Debug)]
pub struct Fickle {
    vals: Vec<sophia_api::term::SimpleTerm<'static>>,
    n: std::cell::Cell<usize>,
}
impl Fickle {
    pub fn new(vals: &[MT]) -> Self {
        Fickle { vals: vals.iter().map(|t| t.to_simple()).collect(), n: std::cell::Cell::new(0) }
    }
    fn next(&self) -> &sophia_api::term::SimpleTerm<'static> {
        let k = self.n.get();
        self.n.set(k + 1);
        &self.vals[k % self.vals.len()]
    }
    fn cur(&self) -> &sophia_api::term::SimpleTerm<'static> {
        let k = self.n.get().max(1) - 1;
        &self.vals[k % self.vals.len()]
    }
}
impl sophia_api::term::Term for Fickle {
    type BorrowTerm<'x> = &'x Fickle;
    fn kind(&self) -> sophia_api::term::TermKind {
        self.vals[0].kind()
    }
    fn iri(&self) -> Option<sophia_api::term::IriRef<sophia_api::MownStr<'_>>> {
        self.next().iri()
    }
    fn bnode_id(&self) -> Option<sophia_api::term::BnodeId<sophia_api::MownStr<'_>>> {
        self.next().bnode_id()
    }
    fn lexical_form(&self) -> Option<sophia_api::MownStr<'_>> {
        self.next().lexical_form()
    }
    fn datatype(&self) -> Option<sophia_api::term::IriRef<sophia_api::MownStr<'_>>> {
        self.cur().datatype()
    }
    fn language_tag(&self) -> Option<sophia_api::term::LanguageTag<sophia_api::MownStr<'_>>> {
        self.cur().language_tag()
    }
    fn variable(&self) -> Option<sophia_api::term::VarName<sophia_api::MownStr<'_>>> {
        self.next().variable()
    }
    fn borrow_term(&self) -> &Fickle {
        self
    }
}
impl Op {
    fn kind(&self) -> &'static str {
        match self {
            Op::New(_) => "new",
            Op::Insert(..) => "insert",
            Op::Remove(..) => "remove",
            Op::Read(..) => "read",
            Op::Clone(..) => "clone",
            Op::CloneFrom(..) => "clone_from",
            Op::Drop(_) => "drop",
            Op::Swap(..) => "swap",
            Op::MoveToHeap(_) => "move",
            Op::Grow(..) => "grow",
            Op::InsertFickle(..) => "insert_fickle",
            Op::RemoveMatching(..) => "remove_matching",
        }
    }
}

#[derive(Clone, Debug, Serialize, Deserialize)]
pub struct Case {
    pub kind: u8,
    pub ops: Vec<Op>,
}

pub const KINDS: &[&str] = &[
    "FastGraph",
    "LightGraph",
    "FastDataset",
    "LightDataset",
    "small::FastGraph",
    "small::LightGraph",
    "small::FastDataset",
    "small::LightDataset",
    "SimpleTermIndex<u16>",
    "SimpleTermIndex<u32>",
    "SimpleTermIndex<Tiny<6>>",
    "SimpleTermIndex<Tiny<3>>",
];

// ------------------------------------------------------------------ systems under test

/// What the model of one live store holds.
#[derive(Clone, Default)]
pub struct Model {
    /// set of quads (projected on the default graph for graphs); unused by bare indexes
    quads: Vec<MQ>,
    /// bare index: distinct terms in order of first `ensure_index`
    terms: Vec<MT>,
}

trait St: Clone + Sized {
    fn new() -> Self;
    fn insert(&mut self, m: &mut Model, q: &MQ) -> Result<(), String>;
    fn remove(&mut self, m: &mut Model, q: &MQ) -> Result<(), String>;
    /// compare with the model; copies every byte of every string held
    fn check(&self, m: &Model, pat: Option<&QPat>) -> Result<(), String>;
    fn audit(&self) -> Vec<usize>;
    /// insert a quad of inconstant terms; the outcome (flag, error) is not judged
    fn insert_fickle(&mut self, fq: &FQ);
    fn remove_matching(&mut self, m: &mut Model, p: &QPat) -> Result<(), String>;
    /// after `insert_fickle` (and a clean audit): internal consistency, then model := store
    fn resync(&self, m: &mut Model) -> Result<(), String>;
}

fn proj(q: &MQ) -> MQ {
    MQ::new(q.s.clone(), q.p.clone(), q.o.clone(), None)
}
fn m_insert(m: &mut Model, q: MQ) -> bool {
    if m.quads.contains(&q) {
        false
    } else {
        m.quads.push(q);
        true
    }
}
fn m_remove(m: &mut Model, q: &MQ) -> bool {
    let n = m.quads.len();
    m.quads.retain(|x| x != q);
    n != m.quads.len()
}
fn same(got: Vec<MQ>, exp: Vec<MQ>, what: &str) -> Result<(), String> {
    let (g, e) = (ms(got), ms(exp));
    if g.len() == e.len() && g.iter().zip(e.iter()).all(|(a, b)| a == b) {
        Ok(())
    } else {
        Err(format!(
            "{what}:\n got: {}\n exp: {}",
            show_quads(&g).replace('\n', " ; "),
            show_quads(&e).replace('\n', " ; ")
        ))
    }
}

macro_rules! st_dataset {
    ($name:ident, $ty:ty) => {
        struct $name($ty);
        // forward both methods, so that a specialised `clone_from` of the store is exercised
        impl Clone for $name {
            fn clone(&self) -> Self {
                $name(self.0.clone())
            }
            fn clone_from(&mut self, source: &Self) {
                self.0.clone_from(&source.0)
            }
        }
        impl St for $name {
            fn new() -> Self {
                $name(<$ty>::new())
            }
            fn insert(&mut self, m: &mut Model, q: &MQ) -> Result<(), String> {
                let r = d_insert(&mut self.0, q);
                let e = m_insert(m, q.clone());
                if r == Ok(e) {
                    Ok(())
                } else {
                    Err(format!("insert {} returned {r:?}, expected Ok({e})", q.show()))
                }
            }
            fn remove(&mut self, m: &mut Model, q: &MQ) -> Result<(), String> {
                let r = d_remove(&mut self.0, q);
                let e = m_remove(m, q);
                if r == Ok(e) {
                    Ok(())
                } else {
                    Err(format!("remove {} returned {r:?}, expected Ok({e})", q.show()))
                }
            }
            fn check(&self, m: &Model, pat: Option<&QPat>) -> Result<(), String> {
                same(d_all(&self.0), m.quads.clone(), "quads()")?;
                if let Some(p) = pat {
                    let exp = m.quads.iter().filter(|q| p.matches(q)).cloned().collect();
                    same(d_matching(&self.0, p), exp, "quads_matching()")?;
                }
                Ok(())
            }
            fn audit(&self) -> Vec<usize> {
                self.0.verif_term_index().verif_audit()
            }
            fn remove_matching(&mut self, m: &mut Model, p: &QPat) -> Result<(), String> {
                let n0 = m.quads.len();
                m.quads.retain(|q| !p.matches(q));
                let exp = n0 - m.quads.len();
                match d_remove_matching(&mut self.0, p) {
                    Ok(n) if n == exp => Ok(()),
                    other => Err(format!("remove_matching returned {other:?}, expected Ok({exp})")),
                }
            }
            fn insert_fickle(&mut self, fq: &FQ) {
                use sophia_api::dataset::MutableDataset;
                let (s, p, o) = (Fickle::new(&fq.s), Fickle::new(&fq.p), Fickle::new(&fq.o));
                let g = fq.g.as_ref().map(|g| Fickle::new(g));
                let _ = self.0.insert(&s, &p, &o, g.as_ref());
            }
            fn resync(&self, m: &mut Model) -> Result<(), String> {
                let all = d_all(&self.0);
                for q in &all {
                    if !d_contains(&self.0, q) {
                        return Err(format!("quads() yields {} but contains() denies it", q.show()));
                    }
                    let pat = QPat::exact(q);
                    let got = d_matching(&self.0, &pat);
                    if got.len() != 1 || &got[0] != q {
                        return Err(format!("quads_matching(exactly {}) yields {} quads", q.show(), got.len()));
                    }
                }
                let mut d = all.clone();
                d.sort();
                d.dedup();
                if d.len() != all.len() {
                    return Err("quads() yields a quad twice".into());
                }
                m.quads = all;
                Ok(())
            }
        }
    };
}
macro_rules! st_graph {
    ($name:ident, $ty:ty) => {
        struct $name($ty);
        // forward both methods, so that a specialised `clone_from` of the store is exercised
        impl Clone for $name {
            fn clone(&self) -> Self {
                $name(self.0.clone())
            }
            fn clone_from(&mut self, source: &Self) {
                self.0.clone_from(&source.0)
            }
        }
        impl St for $name {
            fn new() -> Self {
                $name(<$ty>::new())
            }
            fn insert(&mut self, m: &mut Model, q: &MQ) -> Result<(), String> {
                let q = proj(q);
                let r = g_insert(&mut self.0, &q);
                let e = m_insert(m, q.clone());
                if r == Ok(e) {
                    Ok(())
                } else {
                    Err(format!("insert {} returned {r:?}, expected Ok({e})", q.show()))
                }
            }
            fn remove(&mut self, m: &mut Model, q: &MQ) -> Result<(), String> {
                let q = proj(q);
                let r = g_remove(&mut self.0, &q);
                let e = m_remove(m, &q);
                if r == Ok(e) {
                    Ok(())
                } else {
                    Err(format!("remove {} returned {r:?}, expected Ok({e})", q.show()))
                }
            }
            fn check(&self, m: &Model, pat: Option<&QPat>) -> Result<(), String> {
                same(g_all(&self.0), m.quads.clone(), "triples()")?;
                if let Some(p) = pat {
                    let exp = m.quads.iter().filter(|q| p.matches_triple(q)).cloned().collect();
                    same(g_matching(&self.0, p), exp, "triples_matching()")?;
                }
                Ok(())
            }
            fn audit(&self) -> Vec<usize> {
                self.0.verif_term_index().verif_audit()
            }
            fn remove_matching(&mut self, m: &mut Model, p: &QPat) -> Result<(), String> {
                let n0 = m.quads.len();
                m.quads.retain(|q| !p.matches_triple(q));
                let exp = n0 - m.quads.len();
                match g_remove_matching(&mut self.0, p) {
                    Ok(n) if n == exp => Ok(()),
                    other => Err(format!("remove_matching returned {other:?}, expected Ok({exp})")),
                }
            }
            fn insert_fickle(&mut self, fq: &FQ) {
                use sophia_api::graph::MutableGraph;
                let (s, p, o) = (Fickle::new(&fq.s), Fickle::new(&fq.p), Fickle::new(&fq.o));
                let _ = self.0.insert(&s, &p, &o);
            }
            fn resync(&self, m: &mut Model) -> Result<(), String> {
                let all = g_all(&self.0);
                for q in &all {
                    if !g_contains(&self.0, q) {
                        return Err(format!("triples() yields {} but contains() denies it", q.show()));
                    }
                    let pat = QPat::exact(q);
                    let got = g_matching(&self.0, &pat);
                    if got.len() != 1 || &got[0] != q {
                        return Err(format!("triples_matching(exactly {}) yields {} triples", q.show(), got.len()));
                    }
                }
                let mut d = all.clone();
                d.sort();
                d.dedup();
                if d.len() != all.len() {
                    return Err("triples() yields a triple twice".into());
                }
                m.quads = all;
                Ok(())
            }
        }
    };
}
st_graph!(SFastGraph, FastGraph);
st_graph!(SLightGraph, LightGraph);
st_dataset!(SFastDataset, FastDataset);
st_dataset!(SLightDataset, LightDataset);
st_graph!(SSmallFastGraph, SmallFastGraph);
st_graph!(SSmallLightGraph, SmallLightGraph);
st_dataset!(SSmallFastDataset, SmallFastDataset);
st_dataset!(SSmallLightDataset, SmallLightDataset);

struct SIndex<I: Index>(SimpleTermIndex<I>);
impl<I: Index> Clone for SIndex<I> {
    fn clone(&self) -> Self {
        SIndex(self.0.clone())
    }
    fn clone_from(&mut self, source: &Self) {
        self.0.clone_from(&source.0)
    }
}
impl<I: Index + PartialEq> St for SIndex<I> {
    fn new() -> Self {
        SIndex(SimpleTermIndex::new())
    }
    fn insert(&mut self, m: &mut Model, q: &MQ) -> Result<(), String> {
        // capacity: `MAX` is reserved (default graph), so indices 0..MAX-1 can be issued
        let cap = I::MAX.into_usize();
        for t in q.terms() {
            let known = m.terms.iter().position(|x| x == t);
            if known.is_none() && m.terms.len() >= cap {
                // index full: an error is expected, and nothing may change
                match self.0.ensure_index(t.to_simple()) {
                    Err(_) => {}
                    other => return Err(format!("ensure_index({}) on a full index = {other:?}, expected an error", t.show())),
                }
                if let Some(i) = self.0.get_index(t.to_simple()) {
                    return Err(format!("get_index({}) = Some({i:?}) after ensure_index was refused (index full)", t.show()));
                }
                continue;
            }
            let exp = match known {
                Some(i) => i,
                None => {
                    m.terms.push(t.clone());
                    m.terms.len() - 1
                }
            };
            match self.0.ensure_index(t.to_simple()) {
                Ok(i) if i.into_usize() == exp => {}
                other => return Err(format!("ensure_index({}) = {other:?}, expected index {exp}", t.show())),
            }
        }
        Ok(())
    }
    fn remove(&mut self, m: &mut Model, q: &MQ) -> Result<(), String> {
        // an index never forgets: `remove` is a pure lookup here
        for t in q.terms() {
            let exp = m.terms.iter().position(|x| x == t);
            let got = self.0.get_index(t.to_simple()).map(Index::into_usize);
            if got != exp {
                return Err(format!("get_index({}) = {got:?}, expected {exp:?}", t.show()));
            }
        }
        Ok(())
    }
    fn check(&self, m: &Model, _pat: Option<&QPat>) -> Result<(), String> {
        if self.0.len() != m.terms.len() {
            return Err(format!("len() = {}, expected {}", self.0.len(), m.terms.len()));
        }
        for (i, t) in m.terms.iter().enumerate() {
            let got = MT::from_term(self.0.get_term(I::from_usize(i)));
            // the index keeps the first representation it was given: exact comparison
            if !got.same_repr(t) {
                return Err(format!("get_term({i}) = {}, expected {}", got.show(), t.show()));
            }
            let back = self.0.get_index(t.to_simple()).map(Index::into_usize);
            if back != Some(i) {
                return Err(format!("get_index({}) = {back:?}, expected Some({i})", t.show()));
            }
        }
        Ok(())
    }
    fn audit(&self) -> Vec<usize> {
        self.0.verif_audit()
    }
    fn remove_matching(&mut self, _m: &mut Model, _p: &QPat) -> Result<(), String> {
        Ok(())
    }
    fn insert_fickle(&mut self, fq: &FQ) {
        for vals in [Some(&fq.s), Some(&fq.p), Some(&fq.o), fq.g.as_ref()].into_iter().flatten() {
            let before = self.0.len();
            let t = Fickle::new(vals);
            if let Ok(i) = self.0.ensure_index(&t) {
                // an issued index must exist
                assert!(i.into_usize() < self.0.len(), "ensure_index returned {i:?} but len() = {}", self.0.len());
            }
            assert!(self.0.len() <= before + 1, "one ensure_index call added {} entries", self.0.len() - before);
        }
    }
    fn resync(&self, m: &mut Model) -> Result<(), String> {
        let cap = I::MAX.into_usize();
        if self.0.len() > cap {
            return Err(format!("len() = {} exceeds the capacity {cap}", self.0.len()));
        }
        let mut terms = vec![];
        for i in 0..self.0.len() {
            let t = self.0.get_term(I::from_usize(i));
            let back = self.0.get_index(t).map(Index::into_usize);
            if back != Some(i) {
                return Err(format!("get_index(get_term({i})) = {back:?}"));
            }
            terms.push(MT::from_term(t));
        }
        m.terms = terms;
        Ok(())
    }
}

// ------------------------------------------------------------------ interpreter

#[derive(Default)]
struct Outcome {
    /// (signature, detail)
    fail: Option<(String, String)>,
    nontrivial: bool,
    classes: Vec<String>,
}

fn relabel_bits(mask: u8, i: usize, j: usize) -> u8 {
    let bi = (mask >> i) & 1;
    let bj = (mask >> j) & 1;
    let mut m = mask & !(1 << i) & !(1 << j);
    m |= bi << j;
    m |= bj << i;
    m
}

/// `audit`: evaluate oracle 2 (and stop at its first failure, before reading anything).
fn run_history<S: St>(ops: &[Op], audit: bool) -> Outcome {
    let mut out = Outcome::default();
    let mut slots: Vec<Option<S>> = (0..SLOTS).map(|_| None).collect();
    let mut models: Vec<Model> = (0..SLOTS).map(|_| Model::default()).collect();
    // bit j of sib[i]: slot j holds a store related to slot i's by cloning
    let mut sib = [0u8; SLOTS];
    let mut fresh = 0u32;
    slots[0] = Some(S::new());
    let mut clones = 0;
    let mut max_terms = 0usize;

    fn forget(sib: &mut [u8; SLOTS], x: usize) {
        sib[x] = 0;
        for s in sib.iter_mut() {
            *s &= !(1 << x);
        }
    }

    for (step, op) in ops.iter().enumerate() {
        let kind = op.kind();
        let mut acted: Option<usize> = None;
        let mut pat: Option<(usize, &QPat)> = None;
        let mut op_err: Option<String> = None;
        let mut resync: Option<usize> = None;
        let slot = |i: &u8| *i as usize % SLOTS;
        match op {
            Op::New(i) => {
                let i = slot(i);
                if slots[i].is_some() && sib[i] != 0 {
                    out.nontrivial = true;
                    out.classes.push("drop-with-live-sibling".into());
                }
                forget(&mut sib, i);
                slots[i] = Some(S::new());
                models[i] = Model::default();
                acted = Some(i);
            }
            Op::Insert(i, q) | Op::Remove(i, q) => {
                let i = slot(i);
                if slots[i].is_none() {
                    slots[i] = Some(S::new());
                    models[i] = Model::default();
                    forget(&mut sib, i);
                }
                if sib[i] != 0 {
                    out.nontrivial = true;
                    out.classes.push("mutate-with-live-sibling".into());
                }
                let s = slots[i].as_mut().unwrap();
                let r = if matches!(op, Op::Insert(..)) {
                    s.insert(&mut models[i], q)
                } else {
                    s.remove(&mut models[i], q)
                };
                op_err = r.err();
                acted = Some(i);
            }
            Op::Grow(i, k) => {
                let i = slot(i);
                if slots[i].is_none() {
                    slots[i] = Some(S::new());
                    models[i] = Model::default();
                    forget(&mut sib, i);
                }
                if sib[i] != 0 {
                    out.nontrivial = true;
                    out.classes.push("grow-with-live-sibling".into());
                }
                let s = slots[i].as_mut().unwrap();
                for _ in 0..*k {
                    fresh += 1;
                    let q = MQ::new(
                        MT::iri(format!("http://g.example/fresh/{fresh}")),
                        MT::iri("http://g.example/p"),
                        MT::lit(format!("value number {fresh}"), XSD_STRING),
                        None,
                    );
                    if let Err(e) = s.insert(&mut models[i], &q) {
                        op_err = Some(e);
                        break;
                    }
                }
                acted = Some(i);
            }
            Op::Read(i, p) => {
                let i = slot(i);
                if slots[i].is_some() {
                    pat = Some((i, p));
                }
            }
            Op::RemoveMatching(i, p) => {
                let i = slot(i);
                if let Some(s) = slots[i].as_mut() {
                    if sib[i] != 0 {
                        out.nontrivial = true;
                        out.classes.push("mutate-with-live-sibling".into());
                    }
                    op_err = s.remove_matching(&mut models[i], p).err();
                    acted = Some(i);
                }
            }
            Op::InsertFickle(i, fq) => {
                let i = slot(i);
                if slots[i].is_none() {
                    slots[i] = Some(S::new());
                    models[i] = Model::default();
                    forget(&mut sib, i);
                }
                if sib[i] != 0 {
                    out.nontrivial = true;
                    out.classes.push("mutate-with-live-sibling".into());
                }
                slots[i].as_mut().unwrap().insert_fickle(fq);
                resync = Some(i);
                acted = Some(i);
            }
            Op::Clone(a, b) => {
                let (a, b) = (slot(a), slot(b));
                if a != b {
                    if let Some(src) = &slots[a] {
                        let c = src.clone();
                        if slots[b].is_some() && sib[b] != 0 {
                            out.nontrivial = true;
                        }
                        forget(&mut sib, b);
                        slots[b] = Some(c); // drops the previous occupant *after* cloning
                        models[b] = models[a].clone();
                        sib[b] = sib[a] | (1 << a);
                        for k in 0..SLOTS {
                            if sib[b] & (1 << k) != 0 {
                                sib[k] |= 1 << b;
                            }
                        }
                        clones += 1;
                        acted = Some(b);
                    }
                }
            }
            Op::CloneFrom(a, b) => {
                let (a, b) = (slot(a), slot(b));
                if a != b && slots[a].is_some() {
                    if slots[b].is_none() {
                        slots[b] = Some(S::new());
                        models[b] = Model::default();
                    }
                    if sib[b] != 0 {
                        out.nontrivial = true;
                    }
                    forget(&mut sib, b);
                    let (src, dst) = if a < b {
                        let (l, r) = slots.split_at_mut(b);
                        (l[a].as_ref().unwrap(), r[0].as_mut().unwrap())
                    } else {
                        let (l, r) = slots.split_at_mut(a);
                        (r[0].as_ref().unwrap(), l[b].as_mut().unwrap())
                    };
                    dst.clone_from(src);
                    models[b] = models[a].clone();
                    sib[b] = sib[a] | (1 << a);
                    for k in 0..SLOTS {
                        if sib[b] & (1 << k) != 0 {
                            sib[k] |= 1 << b;
                        }
                    }
                    clones += 1;
                    acted = Some(b);
                }
            }
            Op::Drop(i) => {
                let i = slot(i);
                if slots[i].is_some() {
                    if sib[i] != 0 {
                        out.nontrivial = true;
                        out.classes.push("drop-with-live-sibling".into());
                    }
                    forget(&mut sib, i);
                    slots[i] = None;
                    models[i] = Model::default();
                }
            }
            Op::Swap(a, b) => {
                let (a, b) = (slot(a), slot(b));
                if a != b {
                    if a < b {
                        let (l, r) = slots.split_at_mut(b);
                        match (l[a].as_mut(), r[0].as_mut()) {
                            (Some(x), Some(y)) => std::mem::swap(x, y),
                            _ => std::mem::swap(&mut l[a], &mut r[0]),
                        }
                    } else {
                        let (l, r) = slots.split_at_mut(a);
                        match (l[b].as_mut(), r[0].as_mut()) {
                            (Some(x), Some(y)) => std::mem::swap(x, y),
                            _ => std::mem::swap(&mut l[b], &mut r[0]),
                        }
                    }
                    models.swap(a, b);
                    sib.swap(a, b);
                    for s in sib.iter_mut() {
                        *s = relabel_bits(*s, a, b);
                    }
                    acted = Some(a);
                }
            }
            Op::MoveToHeap(i) => {
                let i = slot(i);
                if let Some(s) = slots[i].take() {
                    let b: Box<S> = Box::new(s);
                    let mut v: Vec<S> = Vec::with_capacity(1);
                    v.push(*b);
                    v.reserve(64); // re-allocation: the struct is moved again
                    slots[i] = v.pop();
                    acted = Some(i);
                }
            }
        }
        if let Some(e) = op_err {
            out.fail = Some((format!("op-result/{kind}"), format!("step {step} ({kind}): {e}")));
            return out;
        }
        // oracle 2 first (never read a store whose index is not self-contained)
        if audit {
            for (i, s) in slots.iter().enumerate() {
                if let Some(s) = s {
                    let bad = s.audit();
                    if !bad.is_empty() {
                        let who = if acted == Some(i) { "acted-slot" } else { "other-slot" };
                        out.fail = Some((
                            format!("audit/self-containment/after-{kind}/{who}"),
                            format!(
                                "step {step} ({kind}): slot {i}: {} i2t entries hold borrowed strings that do not point into this index's own t2i keys (first indices: {:?})",
                                bad.len(),
                                &bad[..bad.len().min(8)]
                            ),
                        ));
                        return out;
                    }
                }
            }
        }
        // after an insertion of inconstant terms the acted store is only required to be internally
        // consistent (its model is re-read from it); its siblings are still held to their models
        if let Some(i) = resync {
            if let Err(e) = slots[i].as_ref().unwrap().resync(&mut models[i]) {
                out.fail = Some((
                    "consistency/after-insert_fickle".to_string(),
                    format!("step {step} ({kind}): slot {i} is not internally consistent: {e}"),
                ));
                return out;
            }
        }
        // oracle 1: every live store equals its model
        for (i, s) in slots.iter().enumerate() {
            if let Some(s) = s {
                let p = pat.and_then(|(pi, p)| if pi == i { Some(p) } else { None });
                if let Err(e) = s.check(&models[i], p) {
                    let who = if acted == Some(i) { "acted-slot" } else { "other-slot" };
                    out.fail = Some((
                        format!("content/after-{kind}/{who}"),
                        format!("step {step} ({kind}): slot {i} differs from its model: {e}"),
                    ));
                    return out;
                }
                max_terms = max_terms.max(models[i].quads.len()).max(models[i].terms.len());
            }
        }
    }
    if clones > 0 {
        out.classes.push("has-clone".into());
    }
    out.classes.push(
        match max_terms {
            0..=3 => "size:0-3",
            4..=14 => "size:4-14",
            15..=56 => "size:15-56",
            57..=224 => "size:57-224",
            _ => "size:225+",
        }
        .into(),
    );
    out
}

fn run_kind(case: &Case, audit: bool) -> Outcome {
    match case.kind as usize % KINDS.len() {
        0 => run_history::<SFastGraph>(&case.ops, audit),
        1 => run_history::<SLightGraph>(&case.ops, audit),
        2 => run_history::<SFastDataset>(&case.ops, audit),
        3 => run_history::<SLightDataset>(&case.ops, audit),
        4 => run_history::<SSmallFastGraph>(&case.ops, audit),
        5 => run_history::<SSmallLightGraph>(&case.ops, audit),
        6 => run_history::<SSmallFastDataset>(&case.ops, audit),
        7 => run_history::<SSmallLightDataset>(&case.ops, audit),
        8 => run_history::<SIndex<u16>>(&case.ops, audit),
        9 => run_history::<SIndex<u32>>(&case.ops, audit),
        10 => run_history::<SIndex<Tiny<6>>>(&case.ops, audit),
        _ => run_history::<SIndex<Tiny<3>>>(&case.ops, audit),
    }
}

// ------------------------------------------------------------------ generator

fn t1() -> MT {
    MT::triple(MT::iri("http://x/a"), MT::iri("http://x/p"), MT::lang("a", "en"))
}
fn t2() -> MT {
    MT::triple(MT::bn("b"), MT::iri("http://x/p"), t1())
}
fn quad_strategy() -> BoxedStrategy<MQ> {
    let s = pick(vec![MT::iri("http://x/a"), MT::bn("b"), t1(), MT::var("v"), MT::string("a literal subject")]);
    let p = pick(vec![MT::iri("http://x/p"), MT::iri("http://x/q")]);
    let o = pick(vec![
        MT::iri("http://x/a"),
        MT::string("a"),
        MT::lang("a", "en"),
        MT::lang("a", "EN"),
        t1(),
        t2(),
        MT::lit("1", xsd("integer")),
        MT::bn("b"),
    ]);
    let g = pick(vec![None, Some(MT::iri("http://x/g")), Some(MT::bn("b")), Some(t1())]);
    let dense = (s, p, o, g).prop_map(|(s, p, o, g)| MQ::new(s, p, o, g));
    let mut full = TermCfg::full();
    full.allow_var = true;
    let wide = full.quad(true, true);
    prop_oneof![4 => dense, 1 => wide].boxed()
}
fn pattern_strategy() -> BoxedStrategy<QPat> {
    let pool = vec![
        MT::iri("http://x/a"),
        MT::bn("b"),
        t1(),
        MT::iri("http://x/p"),
        MT::lang("a", "EN"),
        MT::string("a"),
        MT::iri("http://x/absent"),
    ];
    let tp = tpat(pool, vec![XSD_STRING.into(), RDF_LANGSTRING.into()], vec!["en".into(), "fr".into()]);
    let gp = gpat(vec![None, Some(MT::iri("http://x/g")), Some(MT::bn("b")), Some(t1())], tp.clone());
    (tp.clone(), tp.clone(), tp, gp).prop_map(|(s, p, o, g)| QPat { s, p, o, g }).boxed()
}
fn op_strategy() -> BoxedStrategy<Op> {
    let sl = 0u8..SLOTS as u8;
    let q = quad_strategy();
    prop_oneof![
        1 => sl.clone().prop_map(Op::New),
        6 => (sl.clone(), q.clone()).prop_map(|(i, q)| Op::Insert(i, q)),
        2 => (sl.clone(), q.clone()).prop_map(|(i, q)| Op::Remove(i, q)),
        3 => (sl.clone(), pattern_strategy()).prop_map(|(i, p)| Op::Read(i, p)),
        5 => (sl.clone(), sl.clone()).prop_map(|(a, b)| Op::Clone(a, b)),
        1 => (sl.clone(), sl.clone()).prop_map(|(a, b)| Op::CloneFrom(a, b)),
        3 => sl.clone().prop_map(Op::Drop),
        2 => (sl.clone(), sl.clone()).prop_map(|(a, b)| Op::Swap(a, b)),
        2 => sl.clone().prop_map(Op::MoveToHeap),
        2 => (sl.clone(), prop_oneof![3 => 1u16..20, 1 => 20u16..160]).prop_map(|(i, k)| Op::Grow(i, k)),
        2 => (sl.clone(), fq_strategy()).prop_map(|(i, fq)| Op::InsertFickle(i, fq)),
        2 => (sl.clone(), pattern_strategy()).prop_map(|(i, p)| Op::RemoveMatching(i, p)),
    ]
    .boxed()
}
fn fickle_pos(pos: u8) -> BoxedStrategy<Vec<MT>> {
    // values of one kind; long strings, so that every value is a heap allocation of its own
    let iris: Vec<MT> = (0..4).map(|k| MT::iri(format!("http://f.example/inconstant/iri/number/{k}/{}", "x".repeat(24)))).collect();
    let bns: Vec<MT> = (0..3).map(|k| MT::bn(format!("inconstantblanknodewithalonglabel{k}"))).collect();
    let lits: Vec<MT> = (0..3).map(|k| MT::string(format!("an inconstant literal, value number {k} {}", "y".repeat(16)))).collect();
    let langs: Vec<MT> = (0..3).map(|k| MT::lang(format!("an inconstant tagged literal, number {k} {}", "z".repeat(16)), "en")).collect();
    let pools: Vec<Vec<MT>> = match pos {
        1 => vec![iris],
        0 | 3 => vec![iris, bns],
        _ => vec![iris, bns, lits, langs],
    };
    (pick(pools), prop::collection::vec(0usize..4, 1..4))
        .prop_map(|(pool, ix)| ix.into_iter().map(|i| pool[i % pool.len()].clone()).collect())
        .boxed()
}
fn fq_strategy() -> BoxedStrategy<FQ> {
    (fickle_pos(0), fickle_pos(1), fickle_pos(2), prop::option::of(fickle_pos(3)))
        .prop_map(|(s, p, o, g)| FQ { s, p, o, g })
        .boxed()
}
fn case_strategy() -> BoxedStrategy<Case> {
    (0..KINDS.len() as u8, prop::collection::vec(op_strategy(), 1..36))
        .prop_map(|(kind, ops)| Case { kind, ops })
        .boxed()
}

// ------------------------------------------------------------------ the check

pub struct C10;

impl Check for C10 {
    fn stall_secs(_tier: Tier) -> Option<u64> {
        None
    }
    type Case = Case;
    const ID: &'static str = "C10";
    fn rule() -> String {
        "operation histories (1-35 ops) over an arena of 4 slots holding stores of one of 10 types (Fast/Light Graph/Dataset with 32- and 16-bit index, bare SimpleTermIndex<u16|u32>): new/insert/remove/read/clone/clone_from/drop/swap/move-to-heap/grow(k fresh terms, up to 160, crossing hash-map resize thresholds), over all term kinds incl. owned quoted triples. After every step: (2) verif_audit() of every live store's term index is empty, then (1) every live store equals its own model (full enumeration copying every string + a pattern query). Non-trivial = history in which a store related to another live store by cloning is mutated, grown, dropped or overwritten (so that the survivor is read afterwards); distinct by hash of the whole case.".into()
    }
    fn assumptions() -> Vec<String> {
        vec![
            "oracle 2 relies on the cfg-guarded hook SimpleTermIndex::verif_audit (feature verif_hooks of sophia_inmem, additive code only)".into(),
            "a history stops at its first audit failure, before any read of that store (the harness must not itself read released memory)".into(),
            "AddressSanitizer (thorough tier) sees addressability errors on executed paths only; no Miri / aliasing-model check".into(),
        ]
    }
    fn cases(tier: Tier) -> u32 {
        tier.pick(80_000, 2_400_000)
    }
    fn strategy(_tier: Tier) -> BoxedStrategy<Case> {
        case_strategy()
    }
    fn run(case: &Case, ctx: &mut Ctx) {
        if std::env::var_os("VERIF_C10_ASAN_ONLY").is_some() {
            // debugging knob: evaluate nothing in-process, so that only the sanitized child
            // (oracle 3) judges the histories (used to validate that stage on a defective tree)
            return;
        }
        let k = case.kind as usize % KINDS.len();
        ctx.class(format!("kind:{}", KINDS[k]));
        let mut seen = std::collections::BTreeSet::new();
        for op in &case.ops {
            if seen.insert(op.kind()) {
                ctx.class(format!("op:{}", op.kind()));
            }
        }
        let out = run_kind(case, true);
        for c in out.classes {
            ctx.class(c);
        }
        if out.nontrivial {
            ctx.nontrivial();
        }
        if let Some((sig, detail)) = out.fail {
            ctx.fail(sig, format!("{}: {detail}", KINDS[k]));
        }
    }
    fn extra_stage(tier: Tier, seed: u64, _known: &Known) -> ExtraResult {
        let mut res = asan_stage(tier, seed);
        probe_stage(&mut res);
        res
    }
}

// ------------------------------------------------------------------ AddressSanitizer replay

fn sample_cases(seed: u64, n: usize) -> Vec<Case> {
    let mut seed_bytes = [0u8; 32];
    seed_bytes[..8].copy_from_slice(&seed.to_le_bytes());
    seed_bytes[8..16].copy_from_slice(b"c10-asan");
    let rng = TestRng::from_seed(RngAlgorithm::ChaCha, &seed_bytes);
    let mut runner = TestRunner::new_with_rng(Config::default(), rng);
    let strat = case_strategy();
    (0..n)
        .filter_map(|_| strat.new_tree(&mut runner).ok().map(|t| t.current()))
        .collect()
}

fn corpus_cases() -> Vec<Case> {
    let dir = verif_root().join("corpus").join("C10");
    let mut files: Vec<_> = std::fs::read_dir(&dir)
        .map(|rd| rd.filter_map(|e| e.ok()).map(|e| e.path()).collect())
        .unwrap_or_default();
    files.sort();
    let mut out = vec![];
    for f in files {
        if let Ok(txt) = std::fs::read_to_string(&f) {
            if let Ok(v) = serde_json::from_str::<serde_json::Value>(&txt) {
                let cv = v.get("case").cloned().unwrap_or(v);
                if let Ok(c) = serde_json::from_value::<Case>(cv) {
                    out.push(c);
                }
            }
        }
    }
    out
}

enum ChildResult {
    Clean(u64),
    /// (index of the case being run, kind of report, excerpt)
    Asan(usize, String, String),
    Mismatch(usize, String),
    Inconclusive(String),
}

fn run_child(bin: &std::path::Path, file: &std::path::Path, timeout_s: u64) -> ChildResult {
    use std::process::{Command, Stdio};
    let mut child = match crate::engine::unlimited(&mut Command::new(bin))
        .arg("--worker")
        .arg("C10")
        .arg(file)
        .env("ASAN_OPTIONS", "detect_leaks=0:abort_on_error=0:exitcode=77:symbolize=0")
        .stdout(Stdio::piped())
        .stderr(Stdio::piped())
        .spawn()
    {
        Ok(c) => c,
        Err(e) => return ChildResult::Inconclusive(format!("cannot spawn ASan worker: {e}")),
    };
    let so = child.stdout.take().unwrap();
    let se = child.stderr.take().unwrap();
    let h_out = std::thread::spawn(move || {
        let mut last = None;
        let mut mism = None;
        let mut done = None;
        for l in std::io::BufReader::new(so).lines().map_while(Result::ok) {
            if let Some(n) = l.strip_prefix("CASE ") {
                last = n.trim().parse::<usize>().ok();
            } else if let Some(m) = l.strip_prefix("MISMATCH ") {
                mism = Some(m.to_string());
            } else if let Some(n) = l.strip_prefix("DONE ") {
                done = n.trim().parse::<u64>().ok();
            }
        }
        (last, mism, done)
    });
    let h_err = std::thread::spawn(move || {
        let mut buf = String::new();
        for l in std::io::BufReader::new(se).lines().map_while(Result::ok) {
            if buf.len() < 6000 {
                buf.push_str(&l);
                buf.push('\n');
            }
        }
        buf
    });
    let t0 = std::time::Instant::now();
    let status = loop {
        match child.try_wait() {
            Ok(Some(st)) => break Some(st),
            Ok(None) => {
                if t0.elapsed().as_secs() > timeout_s {
                    let _ = child.kill();
                    let _ = child.wait();
                    break None;
                }
                std::thread::sleep(std::time::Duration::from_millis(50));
            }
            Err(e) => return ChildResult::Inconclusive(format!("wait failed: {e}")),
        }
    };
    let (last, mism, done) = h_out.join().unwrap_or((None, None, None));
    let err = h_err.join().unwrap_or_default();
    let Some(status) = status else {
        return ChildResult::Inconclusive(format!("ASan worker timed out after {timeout_s}s (at case {last:?})"));
    };
    if let Some(pos) = err.find("AddressSanitizer") {
        let line = err[pos..].lines().next().unwrap_or("");
        // "AddressSanitizer: heap-use-after-free on address ..."
        let kind = line
            .strip_prefix("AddressSanitizer: ")
            .and_then(|r| r.split_whitespace().next())
            .unwrap_or("report")
            .to_string();
        let start = err[..pos].rfind('\n').map(|p| p + 1).unwrap_or(0);
        let excerpt: String = err[start..].lines().take(25).collect::<Vec<_>>().join("\n");
        return ChildResult::Asan(last.unwrap_or(0), kind, excerpt);
    }
    if let Some(m) = mism {
        return ChildResult::Mismatch(last.unwrap_or(0), m);
    }
    if status.success() {
        match done {
            Some(n) => ChildResult::Clean(n),
            None => ChildResult::Inconclusive("ASan worker exited 0 without DONE line".into()),
        }
    } else {
        ChildResult::Inconclusive(format!(
            "ASan worker exited with {status} without an AddressSanitizer report (at case {last:?}); stderr: {}",
            err.lines().take(5).collect::<Vec<_>>().join(" | ")
        ))
    }
}

fn asan_stage(tier: Tier, seed: u64) -> ExtraResult {
    let mut res = ExtraResult::default();
    if tier == Tier::Quick {
        res.info = json!({"asan": "not run in the quick tier"});
        return res;
    }
    let bin = match std::env::var_os("VCHECK_ASAN").map(std::path::PathBuf::from) {
        Some(p) if p.is_file() => p,
        other => {
            res.inconclusive.push(format!(
                "AddressSanitizer build of the harness unavailable (VCHECK_ASAN={other:?}); oracle 3 not evaluated"
            ));
            res.info = json!({"asan": "unavailable"});
            return res;
        }
    };
    let n: usize = std::env::var("VERIF_C10_ASAN_CASES")
        .ok()
        .and_then(|s| s.parse().ok())
        .unwrap_or(8000);
    let mut cases = corpus_cases();
    let n_corpus = cases.len();
    cases.extend(sample_cases(seed, n));
    let dir = match tempfile::tempdir() {
        Ok(d) => d,
        Err(e) => {
            res.inconclusive.push(format!("cannot create temp dir: {e}"));
            return res;
        }
    };
    let nchunks = 16usize.min(cases.len().max(1));
    let per = cases.len().div_ceil(nchunks);
    let chunks: Vec<(usize, Vec<Case>)> = cases.chunks(per.max(1)).enumerate().map(|(i, c)| (i * per, c.to_vec())).collect();
    let results: Vec<(usize, Vec<Case>, ChildResult)> = std::thread::scope(|s| {
        let hs: Vec<_> = chunks
            .into_iter()
            .enumerate()
            .map(|(ci, (base, chunk))| {
                let bin = bin.clone();
                let file = dir.path().join(format!("chunk{ci}.json"));
                s.spawn(move || {
                    if let Err(e) = std::fs::write(&file, serde_json::to_string(&chunk).unwrap()) {
                        return (base, chunk, ChildResult::Inconclusive(format!("cannot write chunk: {e}")));
                    }
                    let r = run_child(&bin, &file, 1800);
                    (base, chunk, r)
                })
            })
            .collect();
        hs.into_iter().map(|h| h.join().expect("asan thread")).collect()
    });
    let mut clean = 0u64;
    let mut reports = 0u64;
    for (_base, chunk, r) in results {
        match r {
            ChildResult::Clean(nc) => {
                clean += nc;
                res.evaluations += nc;
            }
            ChildResult::Asan(i, kind, excerpt) => {
                reports += 1;
                res.evaluations += i as u64 + 1;
                let case = chunk.get(i).cloned();
                let has_clone = case
                    .as_ref()
                    .map(|c| c.ops.iter().any(|o| matches!(o, Op::Clone(..) | Op::CloneFrom(..))))
                    .unwrap_or(false);
                res.failures.push((
                    json!({"case": case, "note": "replay under the ASan build: vcheck --worker C10 <file with [case]>"}),
                    Failure {
                        signature: format!("asan/{kind}/{}", if has_clone { "history-with-clone" } else { "history-without-clone" }),
                        detail: format!("AddressSanitizer report while replaying the history in the sanitized child:\n{excerpt}"),
                    },
                ));
            }
            ChildResult::Mismatch(i, m) => {
                res.evaluations += i as u64 + 1;
                res.failures.push((
                    json!({"case": chunk.get(i).cloned()}),
                    Failure {
                        signature: "asan-child/content-mismatch".into(),
                        detail: format!("sanitized child: store differs from its model: {m}"),
                    },
                ));
            }
            ChildResult::Inconclusive(m) => res.inconclusive.push(m),
        }
    }
    res.nontrivial = clean.min(n as u64) / 2; // roughly half of the sampled histories are non-trivial (see classes)
    res.info = json!({
        "asan": "run",
        "binary": bin.display().to_string(),
        "cases_sampled": n,
        "corpus_cases": n_corpus,
        "cases_clean_under_asan": clean,
        "asan_reports": reports,
    });
    res
}

// ------------------------------------------------------------------ probe: indices never issued

/// `TermIndex::get_term` is a *safe* method documented as "may panic" for an index that this
/// instance never issued. It must then panic (or otherwise stay memory safe), never read out of
/// bounds. The probe runs in a child process: a panic is fine, death by signal is a failure.
fn probe_body() -> i32 {
    fn probe<I: Index>(n: usize, extra: &[usize]) -> (u32, u32) {
        let mut idx = SimpleTermIndex::<I>::new();
        for i in 0..n {
            let _ = idx.ensure_index(MT::iri(format!("http://x/t{i}")).to_simple());
        }
        // a clone that diverges issues indices its original never issued
        let mut cl = idx.clone();
        let mut issued = vec![];
        for i in 0..3 {
            if let Ok(j) = cl.ensure_index(MT::string(format!("only in the clone {i}")).to_simple()) {
                issued.push(j.into_usize());
            }
        }
        let (mut panicked, mut returned) = (0, 0);
        for off in issued.iter().copied().chain(extra.iter().map(|e| idx.len() + e)) {
            if off >= I::MAX.into_usize() {
                continue;
            }
            let r = std::panic::catch_unwind(std::panic::AssertUnwindSafe(|| {
                let t = idx.get_term(I::from_usize(off));
                // use every byte of whatever came back
                MT::from_term(t).show().len()
            }));
            match r {
                Err(_) => panicked += 1,
                Ok(_) => returned += 1,
            }
        }
        (panicked, returned)
    }
    std::panic::set_hook(Box::new(|_| {}));
    let mut p = 0;
    let mut r = 0;
    for n in [0usize, 1, 3, 4, 7, 8, 15, 16, 100, 1000] {
        for (a, b) in [
            probe::<u16>(n, &[0, 1, 5, 1000, 60000]),
            probe::<u32>(n, &[0, 1, 5, 1000, 1 << 20, 1 << 30]),
            probe::<Tiny<6>>(n.min(6), &[0, 1, 2]),
        ] {
            p += a;
            r += b;
        }
    }
    println!("PROBE panicked={p} returned={r}");
    0
}

/// Terms yielded by the stores are `&SimpleTerm<'static>`; cloning one gives an owned-looking
/// `SimpleTerm<'static>` that safe code may keep after the store is gone. It must therefore own
/// its data (or point to truly static data), not alias the store's heap.
/// Exit code 4 + "ALIAS ..." lines = the clone aliases store memory (no freed memory is read).
fn probe_static_clone_body() -> i32 {
    use sophia_api::term::SimpleTerm;
    fn ptrs(t: &SimpleTerm<'static>, out: &mut Vec<(String, usize, bool)>) {
        // (what, address of the string data, MownStr reports "owned")
        match t {
            SimpleTerm::Iri(i) => {
                let m = i.clone().unwrap();
                out.push(("iri".into(), m.as_ptr() as usize, m.is_owned()));
                std::mem::forget(m);
            }
            SimpleTerm::BlankNode(b) => {
                let m = b.clone().unwrap();
                out.push(("bnode".into(), m.as_ptr() as usize, m.is_owned()));
                std::mem::forget(m);
            }
            SimpleTerm::LiteralDatatype(l, d) => {
                out.push(("lexical".into(), l.as_ptr() as usize, l.is_owned()));
                let m = d.clone().unwrap();
                out.push(("datatype".into(), m.as_ptr() as usize, m.is_owned()));
                std::mem::forget(m);
            }
            SimpleTerm::LiteralLanguage(l, tag) => {
                out.push(("lexical".into(), l.as_ptr() as usize, l.is_owned()));
                let m = tag.clone().unwrap();
                out.push(("tag".into(), m.as_ptr() as usize, m.is_owned()));
                std::mem::forget(m);
            }
            SimpleTerm::Variable(v) => {
                let m = v.clone().unwrap();
                out.push(("variable".into(), m.as_ptr() as usize, m.is_owned()));
                std::mem::forget(m);
            }
            SimpleTerm::Triple(tr) => {
                for x in tr.iter() {
                    ptrs(x, out);
                }
            }
        }
    }
    let quads: Vec<MQ> = vec![
        MQ::new(MT::iri("http://example.org/a-rather-long-iri-so-that-it-lives-on-the-heap"), MT::iri("http://example.org/p"), MT::lang("a language tagged literal of some length", "en-GB"), None),
        MQ::new(MT::bn("a-blank-node-label-of-some-length"), MT::iri("http://example.org/p"), MT::lit("42", "http://www.w3.org/2001/XMLSchema#integer"), None),
        MQ::new(MT::triple(MT::iri("http://example.org/quoted-subject"), MT::iri("http://example.org/p"), MT::string("quoted object")), MT::iri("http://example.org/p"), MT::iri("http://example.org/o"), None),
    ];
    let mut aliases = 0;
    let mut examined = 0;
    macro_rules! probe_graph {
        ($ty:ty, $name:expr) => {{
            let g: $ty = g_from::<$ty>(&quads).expect("build graph");
            for t in sophia_api::graph::Graph::triples(&g) {
                let t = t.expect("triple");
                for yielded in t {
                    // `yielded: &SimpleTerm<'static>`; the clone is a value the caller may keep for ever
                    let kept: SimpleTerm<'static> = (*yielded).clone();
                    let (mut a, mut b) = (vec![], vec![]);
                    ptrs(yielded, &mut a);
                    ptrs(&kept, &mut b);
                    for ((what, pa, _), (_, pb, owned)) in a.iter().zip(b.iter()) {
                        examined += 1;
                        if pa == pb && !*owned {
                            println!("ALIAS {} {}: the clone's {what} points into the store (borrowed, same address)", $name, MT::from_term(yielded).show());
                            aliases += 1;
                        }
                    }
                    std::mem::forget(kept); // never drop or read it after this point
                }
            }
        }};
    }
    probe_graph!(FastGraph, "FastGraph");
    probe_graph!(LightGraph, "LightGraph");
    {
        let mut idx = SimpleTermIndex::<u32>::new();
        for q in &quads {
            for t in q.terms() {
                let i = idx.ensure_index(t.to_simple()).expect("ensure_index");
                let yielded: &SimpleTerm<'static> = idx.get_term(i);
                let kept: SimpleTerm<'static> = yielded.clone();
                let (mut a, mut b) = (vec![], vec![]);
                ptrs(yielded, &mut a);
                ptrs(&kept, &mut b);
                for ((what, pa, _), (_, pb, owned)) in a.iter().zip(b.iter()) {
                    examined += 1;
                    if pa == pb && !*owned {
                        println!("ALIAS SimpleTermIndex {}: the clone's {what} points into the index (borrowed, same address)", t.show());
                        aliases += 1;
                    }
                }
                std::mem::forget(kept);
            }
        }
    }
    println!("STATIC-CLONE examined={examined} aliases={aliases}");
    if aliases > 0 {
        4
    } else {
        0
    }
}

fn probe_stage(res: &mut ExtraResult) {
    probe_static_clone_stage(res);
    use std::process::{Command, Stdio};
    let mut bins: Vec<(String, std::path::PathBuf)> = vec![];
    if let Ok(me) = std::env::current_exe() {
        bins.push(("verif".into(), me));
    }
    if let Some(p) = std::env::var_os("VCHECK_ASAN").map(std::path::PathBuf::from) {
        if p.is_file() {
            bins.push(("asan".into(), p));
        }
    }
    let mut info = vec![];
    for (label, bin) in bins {
        let out = crate::engine::unlimited(&mut Command::new(&bin))
            .arg("--worker")
            .arg("C10")
            .arg("probe-unissued-index")
            .env("ASAN_OPTIONS", "detect_leaks=0:abort_on_error=0:exitcode=77:symbolize=0")
            .stdout(Stdio::piped())
            .stderr(Stdio::piped())
            .output();
        res.evaluations += 1;
        match out {
            Err(e) => res.inconclusive.push(format!("cannot spawn probe worker ({label}): {e}")),
            Ok(o) => {
                let so = String::from_utf8_lossy(&o.stdout).to_string();
                let se = String::from_utf8_lossy(&o.stderr).to_string();
                if o.status.success() && so.contains("PROBE ") {
                    res.nontrivial += 1;
                    info.push(json!({"binary": label, "result": so.trim()}));
                } else {
                    let tail: String = se.lines().rev().take(12).collect::<Vec<_>>().into_iter().rev().collect::<Vec<_>>().join("\n");
                    res.failures.push((
                        json!({"probe": "unissued-index", "binary": label}),
                        Failure {
                            signature: "ub/get_term-with-unissued-index".into(),
                            detail: format!(
                                "TermIndex::get_term (a safe method) called with an index this instance never issued killed the process instead of panicking: status {:?}\nstdout: {}\nstderr (tail): {}",
                                o.status, so.trim(), tail
                            ),
                        },
                    ));
                }
            }
        }
    }
    if let serde_json::Value::Object(m) = &mut res.info {
        m.insert("unissued_index_probe".into(), json!(info));
    } else {
        res.info = json!({"unissued_index_probe": info});
    }
}

fn probe_static_clone_stage(res: &mut ExtraResult) {
    use std::process::{Command, Stdio};
    let Ok(me) = std::env::current_exe() else { return };
    let out = Command::new(&me).arg("--worker").arg("C10").arg("probe-static-clone").stdout(Stdio::piped()).stderr(Stdio::piped()).output();
    res.evaluations += 1;
    match out {
        Err(e) => res.inconclusive.push(format!("cannot spawn the static-clone probe: {e}")),
        Ok(o) => {
            let so = String::from_utf8_lossy(&o.stdout).to_string();
            match o.status.code() {
                Some(0) if so.contains("STATIC-CLONE ") => res.nontrivial += 1,
                Some(4) => {
                    res.nontrivial += 1;
                    let lines: Vec<&str> = so.lines().filter(|l| l.starts_with("ALIAS")).take(6).collect();
                    res.failures.push((
                        json!({"probe": "static-clone"}),
                        Failure {
                            signature: "ub/static-clone-of-yielded-term-aliases-store".into(),
                            detail: format!(
                                "cloning a term yielded by an in-memory store gives a SimpleTerm<'static> that still borrows the store's heap strings: safe code can keep it after dropping the store and then read freed memory (let kept = g.triples().next().unwrap().unwrap()[0].clone(); drop(g); kept.iri()).\n{}",
                                lines.join("\n")
                            ),
                        },
                    ));
                }
                other => res.inconclusive.push(format!("static-clone probe ended unexpectedly: {other:?} {}", so.lines().last().unwrap_or(""))),
            }
        }
    }
}

pub fn main(opts: &Opts) -> i32 {
    drive::<C10>(opts)
}

/// `vcheck --worker C10 <file.json>`: file = JSON array of cases; replays each history
/// without the audit oracle (all reads happen). Meant to run in the ASan build.
pub fn worker(args: &[String]) -> i32 {
    let Some(file) = args.first() else {
        eprintln!("usage: vcheck --worker C10 <cases.json>");
        return 2;
    };
    if file == "probe-unissued-index" {
        return probe_body();
    }
    if file == "probe-static-clone" {
        return probe_static_clone_body();
    }
    let txt = match std::fs::read_to_string(file) {
        Ok(t) => t,
        Err(e) => {
            eprintln!("cannot read {file}: {e}");
            return 2;
        }
    };
    let cases: Vec<Case> = match serde_json::from_str(&txt) {
        Ok(c) => c,
        Err(e) => {
            eprintln!("cannot decode {file}: {e}");
            return 2;
        }
    };
    let stdout = std::io::stdout();
    let mut n = 0u64;
    for (i, c) in cases.iter().enumerate() {
        {
            let mut o = stdout.lock();
            let _ = writeln!(o, "CASE {i}");
            let _ = o.flush();
        }
        let out = run_kind(c, false);
        if let Some((sig, detail)) = out.fail {
            let mut o = stdout.lock();
            let _ = writeln!(o, "MISMATCH [{sig}] {}", detail.replace('\n', " "));
            let _ = o.flush();
            return 3;
        }
        n += 1;
    }
    println!("DONE {n}");
    0
}
