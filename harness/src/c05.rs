//! C05 — canonical N-Quads is a complete isomorphism invariant of the dataset.
//!
//! Metamorphic pairs: (A, relabelled + shuffled + other container copy of A) must give the same
//! bytes; (A, near-isomorphic mutant of A) must give the same bytes iff `iso_exact` says
//! isomorphic (language tags compared literally). The output, read back by the independent
//! N-Quads reader, must be isomorphic to the input with labels c14n0..c14n(n-1); the
//! returned id map must be a bijection that maps the input onto the returned quads.
use crate::c06::{self, rdfc_ref, DsSpec, SRes, Sh};
use crate::engine::*;
use crate::gen::*;
use crate::iso;
use crate::model::*;
use crate::nqread;
use proptest::prelude::*;
use serde::{Deserialize, Serialize};
use std::collections::{BTreeMap, BTreeSet};

#[derive(Clone, Debug, Serialize, Deserialize)]
pub enum Twin {
    /// swap the objects of two quads whose objects are blank (keeps every in/out degree)
    SwapTargets(usize, usize),
    /// redirect the object of a quad to another blank node
    MoveTarget(usize, usize),
    /// replace a ground object (or ground subject) by another ground term
    ChangeGround(usize, MT),
    /// switch the predicate of one quad
    FlipPred(usize),
    /// change the case of the language tag of one literal (must change the canonical form)
    TagCase(usize),
    /// rename one blank node to another one (merge)
    Merge(usize, usize),
    DropQuad(usize),
    /// move one quad to another graph (default <-> named)
    Regraph(usize),
    /// another structure of the same size: C_2k <-> 2 x C_k, circulant steps changed, ...
    Confuse(u8, u8),
}

#[derive(Clone, Debug, Serialize, Deserialize)]
pub enum Input {
    Spec(DsSpec),
    Quads(Vec<MQ>),
}

#[derive(Clone, Debug, Serialize, Deserialize)]
pub struct Case {
    pub input: Input,
    pub salt: u64,
    pub swaps: Vec<usize>,
    pub cont_a: u8,
    pub cont_b: u8,
    pub twin: Twin,
    pub twin_salt: u64,
}

pub struct C05;

/// signature of the one recorded finding (RDFC-1.0 itself is label-dependent on such inputs; the
/// harness's independent reference gives several documents for relabelled copies as well)
const AMBIGUOUS: &str = "c14n/label-dependent/same-predicate-bnode-arcs-in-several-graphs";

/// Trigger of the recorded finding: a blank node is linked to blank nodes by quads with the same
/// predicate in two different graphs. RDFC-1.0's Hash Related Blank Node does not hash the graph
/// of the quad, so such arcs can be told apart by the first-degree hash only.
fn multi_graph_trigger(qs: &[MQ]) -> bool {
    let arcs: Vec<&MQ> = qs.iter().filter(|q| q.s.is_bnode() && q.o.is_bnode()).collect();
    arcs.iter().any(|q1| arcs.iter().any(|q2| q1.p == q2.p && q1.g != q2.g && (q1.s == q2.s || q1.s == q2.o || q1.o == q2.s || q1.o == q2.o)))
}

/// work budget (calls of Hash N-Degree Quads) of the harness reference; costlier datasets are skipped
const BUDGET: u64 = 6_000;

/// isomorphism judge with language tags compared literally: the tag is moved into a
/// pseudo-datatype so that `iso_exact` (whose term equality folds tag case) sees it verbatim
fn literal_tags(qs: &[MQ]) -> Vec<MQ> {
    fn f(t: &MT) -> MT {
        match t {
            MT::Lang(l, tag) => MT::Lit(l.clone(), format!("urn:x-langtag:{tag}")),
            x => x.clone(),
        }
    }
    qs.iter().map(|q| MQ::new(f(&q.s), f(&q.p), f(&q.o), q.g.as_ref().map(f))).collect()
}
fn iso_lit(a: &[MQ], b: &[MQ]) -> Option<bool> {
    iso::iso_exact_budget(&literal_tags(a), &literal_tags(b), Some(3_000_000))
}

fn input_quads(i: &Input) -> Vec<MQ> {
    match i {
        Input::Spec(s) => s.build(),
        Input::Quads(q) => c06::normalise_dataset(q.clone()),
    }
}

fn confuse(spec: &DsSpec, a: u8, b: u8) -> DsSpec {
    let mut s = spec.clone();
    if let Some(c) = s.comps.first_mut() {
        c.sh = match &c.sh {
            Sh::Lib(Shape::Cycle(n)) if *n >= 4 && n % 2 == 0 => Sh::Lib(Shape::TwoCycles(n / 2)),
            Sh::Lib(Shape::Cycle(n)) if *n >= 6 && n % 3 == 0 => {
                c.copies = 1;
                // three cycles of n/3 as explicit arcs
                let k = n / 3;
                let mut arcs = vec![];
                for j in 0..3 {
                    for i in 0..k {
                        arcs.push((j * k + i, j * k + (i + 1) % k));
                    }
                }
                Sh::Arcs(*n, arcs)
            }
            Sh::Lib(Shape::TwoCycles(k)) => Sh::Lib(Shape::Cycle(2 * k)),
            Sh::Circulant(n, x, y) => {
                let n1 = (*n).max(2) - 1;
                Sh::Circulant(*n, (x + a as usize) % n1 + 1, (y + b as usize) % n1 + 1)
            }
            Sh::Lib(Shape::Bipartite(x, y)) => Sh::Lib(Shape::Bipartite(*y, *x)),
            Sh::Lib(Shape::Path(n)) => Sh::Lib(Shape::Star(*n)),
            Sh::Lib(Shape::Star(n)) => Sh::Lib(Shape::Path(*n)),
            Sh::Lib(Shape::Tree(n)) => Sh::Lib(Shape::Path(n.saturating_sub(1).max(1))),
            Sh::Lib(Shape::Rho(x, y)) => Sh::Lib(Shape::Rho(*y, *x)),
            Sh::Lib(Shape::Clique(n)) => {
                // clique with one arc reversed twice = same; with one arc removed and a parallel added
                let (_, mut arcs) = Shape::Clique(*n).arcs();
                let i = a as usize % arcs.len();
                let (x, y) = arcs[i];
                arcs[i] = (y, x);
                Sh::Arcs(*n, arcs)
            }
            other => other.clone(),
        };
    }
    s
}

fn apply_twin(spec: &Input, qs: &[MQ], twin: &Twin) -> (Vec<MQ>, &'static str) {
    let mut out: Vec<MQ> = qs.to_vec();
    let n = out.len();
    let bn_obj: Vec<usize> = (0..n).filter(|&i| out[i].o.is_bnode()).collect();
    let labels = all_bnodes(qs);
    let kind = match twin {
        Twin::SwapTargets(i, j) => {
            if bn_obj.len() >= 2 {
                let (i, j) = (bn_obj[i % bn_obj.len()], bn_obj[j % bn_obj.len()]);
                let (oi, oj) = (out[i].o.clone(), out[j].o.clone());
                out[i].o = oj;
                out[j].o = oi;
            }
            "swap-targets"
        }
        Twin::MoveTarget(i, k) => {
            if !bn_obj.is_empty() && !labels.is_empty() {
                let i = bn_obj[i % bn_obj.len()];
                out[i].o = MT::bn(labels[k % labels.len()].clone());
            }
            "move-target"
        }
        Twin::ChangeGround(i, t) => {
            let gr: Vec<usize> = (0..n).filter(|&i| !out[i].o.is_bnode() || !out[i].s.is_bnode()).collect();
            if !gr.is_empty() {
                let i = gr[i % gr.len()];
                if !out[i].o.is_bnode() {
                    out[i].o = t.clone();
                } else {
                    out[i].s = MT::iri("http://x/other");
                }
            }
            "change-ground"
        }
        Twin::FlipPred(i) => {
            if n > 0 {
                let i = i % n;
                out[i].p = if out[i].p == MT::iri(c06::P) { MT::iri(c06::Q) } else { MT::iri(c06::P) };
            }
            "flip-predicate"
        }
        Twin::TagCase(i) => {
            let lg: Vec<usize> = (0..n).filter(|&i| matches!(out[i].o, MT::Lang(..))).collect();
            if !lg.is_empty() {
                let i = lg[i % lg.len()];
                // every quad with that (lexical, tag) literal is changed alike, so that no
                // container ever sees two spellings of one tag
                if let MT::Lang(l, t) = out[i].o.clone() {
                    let flipped: String = t.chars().map(|c| if c.is_ascii_lowercase() { c.to_ascii_uppercase() } else { c.to_ascii_lowercase() }).collect();
                    for q in out.iter_mut() {
                        if let MT::Lang(l2, t2) = &q.o {
                            if *l2 == l && t2.eq_ignore_ascii_case(&t) {
                                q.o = MT::Lang(l.clone(), flipped.clone());
                            }
                        }
                    }
                }
            }
            "tag-case"
        }
        Twin::Merge(a, b) => {
            if labels.len() >= 2 {
                let (a, b) = (labels[a % labels.len()].clone(), labels[b % labels.len()].clone());
                out = out.iter().map(|q| q.map_bnodes(&|x| if x == b { a.clone() } else { x.to_string() })).collect();
            }
            "merge-bnodes"
        }
        Twin::DropQuad(i) => {
            if n > 0 {
                out.remove(i % n);
            }
            "drop-quad"
        }
        Twin::Regraph(i) => {
            if n > 0 {
                let i = i % n;
                out[i].g = if out[i].g.is_none() { Some(MT::iri("http://x/g1")) } else { None };
            }
            "regraph"
        }
        Twin::Confuse(a, b) => {
            if let Input::Spec(s) = spec {
                out = confuse(s, *a, *b).build();
            }
            "confusable-structure"
        }
    };
    (c06::normalise_dataset(out), kind)
}

struct Canon {
    nq: String,
    quads: Vec<MQ>,
    idmap: BTreeMap<String, String>,
}

/// canonicalise with the default limits; None = ToxicGraph (outside the property's scope)
fn canon(ctx: &mut Ctx, container: u8, qs: &[MQ], sha384: bool) -> Option<Canon> {
    let t0 = std::time::Instant::now();
    let r = canon0(ctx, container, qs, sha384);
    if std::env::var_os("VERIF_TIMING").is_some() && t0.elapsed().as_millis() > 300 {
        eprintln!("  canon {} ms sha384={sha384} container={container} on\n{}", t0.elapsed().as_millis(), show_quads(qs));
    }
    r
}
fn canon0(ctx: &mut Ctx, container: u8, qs: &[MQ], sha384: bool) -> Option<Canon> {
    match catch(|| c06::run_sophia(container, qs, sha384, 1.0, 6)) {
        Ok(Ok(SRes::Ok { nq, quads, idmap })) => Some(Canon { nq, quads, idmap }),
        Ok(Ok(SRes::Toxic(_))) => {
            ctx.class("toxic-graph(skipped)");
            None
        }
        Ok(Ok(other)) => {
            ctx.fail("c14n/error-on-supported-input", format!("{other:?}\n{}", show_quads(qs)));
            None
        }
        Ok(Err(incoherent)) => {
            ctx.fail("c14n/entry-points-disagree", format!("{incoherent}\n{}", show_quads(qs)));
            None
        }
        Err(p) => {
            ctx.fail(format!("c14n/panic/{}", panic_site(&p)), format!("{p}\n{}", show_quads(qs)));
            None
        }
    }
}

/// structural trigger for signatures
fn trigger(qs: &[MQ]) -> &'static str {
    let twice = qs.iter().any(|q| {
        let mut s = BTreeSet::new();
        q.bnodes().iter().any(|x| !s.insert(*x))
    });
    let bgraph = qs.iter().any(|q| q.g.as_ref().map(MT::is_bnode).unwrap_or(false));
    if twice {
        "bnode-twice-in-one-quad"
    } else if bgraph {
        "blank-graph-name"
    } else {
        "plain"
    }
}

fn check_single(ctx: &mut Ctx, qs: &[MQ], c: &Canon, h: &str) {
    let trig = trigger(qs);
    let labels = all_bnodes(qs);
    let n = labels.len();
    // 1. reading the document back
    match nqread::parse_nquads(&c.nq) {
        Err(e) => ctx.fail(format!("c14n/output-not-nquads/{trig}"), format!("[{h}] the independent N-Quads reader rejects the output: {e}\n{}", c.nq)),
        Ok(back) => {
            if back.len() != c.nq.lines().count() {
                ctx.fail(format!("c14n/output-not-nquads/{trig}"), format!("[{h}] not one statement per line\n{}", c.nq));
            }
            let want: Vec<String> = {
                let mut v: Vec<String> = (0..n).map(|i| format!("c14n{i}")).collect();
                v.sort();
                v
            };
            if all_bnodes(&back) != want {
                ctx.fail(format!("c14n/labels-not-c14n0..n/{trig}"), format!("[{h}] labels {:?}, expected c14n0..c14n{}\n{}", all_bnodes(&back), n as i64 - 1, c.nq));
            }
            match iso_lit(qs, &back) {
                Some(true) => {}
                Some(false) => ctx.fail(
                    format!("c14n/output-not-isomorphic-to-input/{trig}"),
                    format!("[{h}] input:\n{}\n output:\n{}\n{}", show_quads(qs), c.nq, iso::diff_summary(&literal_tags(qs), &literal_tags(&back))),
                ),
                None => ctx.class("iso-budget-exceeded"),
            }
            // sorted, no duplicate line
            let lines: Vec<&str> = c.nq.lines().collect();
            if lines.windows(2).any(|w| w[0].as_bytes() >= w[1].as_bytes()) {
                ctx.fail(format!("c14n/lines-not-sorted/{trig}"), format!("[{h}] lines are not strictly increasing in code point order\n{}", c.nq));
            }
        }
    }
    // 2. the id map is a bijection from the input labels onto c14n0..c14n(n-1)
    let keys: Vec<String> = c.idmap.keys().cloned().collect();
    let vals: BTreeSet<String> = c.idmap.values().cloned().collect();
    let want: BTreeSet<String> = (0..n).map(|i| format!("c14n{i}")).collect();
    if keys != labels || vals != want {
        ctx.fail(format!("c14n/idmap-not-bijection/{trig}"), format!("[{h}] input labels {labels:?}, id map {:?}", c.idmap));
        return;
    }
    // 3. applying it to the input gives exactly the returned quads
    let mapped: Vec<MQ> = qs.iter().map(|q| q.map_bnodes(&|b| c.idmap[b].clone())).collect();
    let mut a = mapped.clone();
    let mut b = c.quads.clone();
    a.sort();
    b.sort();
    if a.len() != b.len() || !a.iter().zip(b.iter()).all(|(x, y)| x.same_repr(y)) {
        ctx.fail(format!("c14n/idmap-does-not-give-returned-quads/{trig}"), format!("[{h}] id map applied to the input:\n{}\n returned quads:\n{}", show_quads(&a), show_quads(&b)));
    }
    // ... and those are the document
    let mut l: Vec<String> = mapped.iter().map(|q| rdfc_ref::quad_nq(q, &|x: &str| x.to_string())).collect();
    l.sort();
    if l.concat() != c.nq {
        ctx.fail(format!("c14n/idmap-does-not-give-document/{trig}"), format!("[{h}] id map applied to the input:\n{}\n document:\n{}", l.concat(), c.nq));
    }
}

impl Check for C05 {
    fn fixed_cases(_tier: Tier, _seed: u64) -> Vec<Case> {
        // large documents (canonical output of 100-300 KiB): the output must still be one sorted
        // line per quad that reads back isomorphic to the input
        [(1200usize, 1u64, 0u8, 2u8), (2500, 2, 1, 3)]
            .into_iter()
            .map(|(n, salt, cont_a, cont_b)| Case {
                input: Input::Quads(crate::gen::bulk_quads(n, salt, true)),
                salt,
                swaps: vec![3, 1, 4, 1, 5, 9, 2, 6],
                cont_a,
                cont_b,
                twin: Twin::DropQuad(7),
                twin_salt: salt + 1,
            })
            .collect()
    }
    fn stall_secs(_tier: Tier) -> Option<u64> {
        Some(900)
    }
    type Case = Case;
    const ID: &'static str = "C05";
    fn rule() -> String {
        "supported datasets from symmetric families (cycles, cliques, stars, K_{m,n}, paths, trees, rho, circulant digraphs, disjoint isomorphic copies, blank graph names; <=14 blank nodes) with ground decorations; pair A = bijective relabelling + quad shuffle + other container (6 container types), pair B = near-isomorphic mutant (swap two arc targets, redirect an arc, change a ground term / predicate / tag case / graph, merge, drop, C_2k vs 2xC_k ...) judged by exact isomorphism search with literal tag comparison; both hashes. Non-trivial = canonicalisation succeeded and >=2 blank nodes share a first-degree hash (computed by the harness reference); distinct by hash of the case."
            .into()
    }
    fn assumptions() -> Vec<String> {
        vec![
            "inputs where canonicalisation answers ToxicGraph under the default limits are outside the property ('whenever canonicalisation succeeds'); they are counted in class toxic-graph(skipped)".into(),
            "within one dataset every (lexical form, case-folded tag) has a single spelling, because sophia's containers treat tags case-insensitively and could otherwise merge two spellings".into(),
            "pairs whose exact isomorphism search exceeds 3e6 search nodes are skipped (class iso-budget-exceeded)".into(),
            "the returned quads are compared with the mapped input as sets (exact term representation incl. tag case)".into(),
        ]
    }
    fn cases(tier: Tier) -> u32 {
        tier.pick(5_000, 160_000)
    }
    fn strategy(_tier: Tier) -> BoxedStrategy<Case> {
        let twin = prop_oneof![
            4 => (0..64usize, 0..64usize).prop_map(|(a, b)| Twin::SwapTargets(a, b)),
            2 => (0..64usize, 0..64usize).prop_map(|(a, b)| Twin::MoveTarget(a, b)),
            1 => (0..64usize, c06::ground_object()).prop_map(|(a, t)| Twin::ChangeGround(a, t)),
            1 => (0..64usize).prop_map(Twin::FlipPred),
            1 => (0..64usize).prop_map(Twin::TagCase),
            1 => (0..64usize, 0..64usize).prop_map(|(a, b)| Twin::Merge(a, b)),
            1 => (0..64usize).prop_map(Twin::DropQuad),
            1 => (0..64usize).prop_map(Twin::Regraph),
            3 => (0..8u8, 0..8u8).prop_map(|(a, b)| Twin::Confuse(a, b)),
        ];
        let spec = prop_oneof![3 => c06::ds_strategy(12), 2 => c06::ds_strategy(8)];
        (spec, any::<u64>(), prop::collection::vec(0..64usize, 0..24), 0..6u8, 0..6u8, twin, any::<u64>())
            .prop_map(|(spec, salt, swaps, cont_a, cont_b, twin, twin_salt)| Case { input: Input::Spec(spec), salt, swaps, cont_a, cont_b, twin, twin_salt })
            .boxed()
    }
    fn show(case: &Case) -> serde_json::Value {
        let qs = input_quads(&case.input);
        let (tw, kind) = apply_twin(&case.input, &qs, &case.twin);
        serde_json::json!({
            "A": qs.iter().map(MQ::show).collect::<Vec<_>>(),
            "containers": [c06::CONTAINERS[case.cont_a as usize % 6], c06::CONTAINERS[case.cont_b as usize % 6]],
            "twin": kind,
            "B": tw.iter().map(MQ::show).collect::<Vec<_>>(),
        })
    }
    fn run(case: &Case, ctx: &mut Ctx) {
        let t0 = std::time::Instant::now();
        Self::run_inner(case, ctx);
        if std::env::var_os("VERIF_TIMING").is_some() && t0.elapsed().as_millis() > 1500 {
            eprintln!("SLOW {} ms: {}", t0.elapsed().as_millis(), serde_json::to_string(case).unwrap());
        }
    }
}
impl C05 {
    fn run_inner(case: &Case, ctx: &mut Ctx) {
        let a = input_quads(&case.input);
        if c06_unsupported(&a) {
            ctx.class("out-of-domain");
            return;
        }
        if let Input::Spec(s) = &case.input {
            for f in s.families() {
                ctx.class(format!("family:{f}"));
            }
        }
        ctx.class(format!("containers:{}+{}", c06::CONTAINERS[case.cont_a as usize % 6], c06::CONTAINERS[case.cont_b as usize % 6]));
        // the harness reference gives the first-degree hashes (non-triviality) and bounds the cost
        // (sophia does at least the work of the unpruned reference, and that work depends on the hash
        // function, so the reference is run first, for both hashes, under a work budget)
        let r = match (rdfc_ref::canonicalize(&a, rdfc_ref::Alg::Sha256, BUDGET), rdfc_ref::canonicalize(&a, rdfc_ref::Alg::Sha384, BUDGET)) {
            (Ok(r), Ok(_)) => r,
            _ => {
                ctx.class("ref-budget-exceeded");
                return;
            }
        };
        let shared = r.stats.shared_fd;
        ctx.class(format!("bnodes:{}", match r.stats.bnodes { 0 => "0", 1 => "1", 2..=3 => "2-3", 4..=7 => "4-7", 8..=10 => "8-10", _ => "11+" }));
        if shared >= 2 {
            ctx.class("shared-first-degree-hash");
        }
        if a.iter().any(|q| q.g.as_ref().map(MT::is_bnode).unwrap_or(false)) {
            ctx.class("blank-graph-name");
        }
        let trig = trigger(&a);
        if multi_graph_trigger(&a) {
            ctx.class("same-predicate-bnode-arcs-in-several-graphs");
        }

        // ---- pair A: relabel + shuffle + other container
        let a2 = permute(relabel(&a, case.salt), &case.swaps);
        for sha384 in [false, true] {
            let h = if sha384 { "SHA-384" } else { "SHA-256" };
            let ca = match canon(ctx, case.cont_a, &a, sha384) {
                Some(c) => c,
                None => return,
            };
            if shared >= 2 {
                ctx.nontrivial();
            }
            check_single(ctx, &a, &ca, h);
            if ctx.failed() {
                return;
            }
            let cb = match canon(ctx, case.cont_b, &a2, sha384) {
                Some(c) => c,
                None => {
                    if !ctx.failed() {
                        ctx.fail(format!("c14n/success-depends-on-labels/{trig}"), format!("[{h}] canonicalisation succeeds on A but answers ToxicGraph on a relabelled copy\n A:\n{}\n copy:\n{}", show_quads(&a), show_quads(&a2)));
                    }
                    return;
                }
            };
            if ca.nq != cb.nq {
                let alg = if sha384 { rdfc_ref::Alg::Sha384 } else { rdfc_ref::Alg::Sha256 };
                // the recorded finding covers a dataset only if RDFC-1.0 itself (the harness's reference)
                // is label-dependent on it; a dataset with the trigger on which the reference assigns
                // one document to every relabelled copy is a deviation of the implementation
                let nalt = rdfc_ref::alt_docs(&a, alg, BUDGET, 200).len();
                let sig = if multi_graph_trigger(&a) && nalt != 1 { AMBIGUOUS.to_string() } else { format!("c14n/depends-on-labels-or-order/{trig}") };
                ctx.fail(
                    sig,
                    format!(
                        "[{h}] (the harness's RDFC-1.0 reference yields {nalt} distinct document(s) on relabelled copies of A) a relabelled, shuffled copy in {} gives another canonical form than the original in {}\n A:\n{}\n copy:\n{}\n c14n(A):\n{}\n c14n(copy):\n{}",
                        c06::CONTAINERS[case.cont_b as usize % 6],
                        c06::CONTAINERS[case.cont_a as usize % 6],
                        show_quads(&a),
                        show_quads(&a2),
                        ca.nq,
                        cb.nq
                    ),
                );
                return;
            }
            check_single(ctx, &a2, &cb, h);
            if ctx.failed() {
                return;
            }

            // ---- pair B: near-isomorphic mutant
            let (b0, kind) = apply_twin(&case.input, &a, &case.twin);
            if c06_unsupported(&b0) {
                continue;
            }
            let b = permute(relabel(&b0, case.twin_salt), &case.swaps);
            if !sha384 {
                ctx.class(format!("twin:{kind}"));
            }
            let truth = match iso_lit(&a, &b) {
                Some(t) => t,
                None => {
                    ctx.class("iso-budget-exceeded");
                    continue;
                }
            };
            let rb = match rdfc_ref::canonicalize(&b, if sha384 { rdfc_ref::Alg::Sha384 } else { rdfc_ref::Alg::Sha256 }, BUDGET) {
                Ok(rb) => rb,
                Err(_) => {
                    ctx.class("ref-budget-exceeded(twin)");
                    continue;
                }
            };
            let cm = match canon(ctx, case.cont_b, &b, sha384) {
                Some(c) => c,
                None => {
                    if truth && !ctx.failed() {
                        ctx.fail(format!("c14n/success-depends-on-labels/{trig}"), format!("[{h}] ToxicGraph on a dataset isomorphic to one that is canonicalised\n A:\n{}\n B:\n{}", show_quads(&a), show_quads(&b)));
                    }
                    if ctx.failed() {
                        return;
                    }
                    continue;
                }
            };
            if !sha384 {
                ctx.class(if truth { "twin-isomorphic" } else { "twin-not-isomorphic" });
                if !truth {
                    // the hard case: same multiset of first-degree hashes, still not isomorphic
                    let ms = |m: &BTreeMap<String, String>| {
                        let mut v: Vec<String> = m.values().cloned().collect();
                        v.sort();
                        v
                    };
                    if ms(&rb.fd) == ms(&r.fd) && !r.fd.is_empty() {
                        ctx.class("twin-not-isomorphic-same-first-degree-hashes");
                    }
                }
            }
            let same = ca.nq == cm.nq;
            if same != truth {
                let sig = if truth { "c14n/isomorphic-but-different-output" } else { "c14n/not-isomorphic-but-same-output" };
                let alg = if sha384 { rdfc_ref::Alg::Sha384 } else { rdfc_ref::Alg::Sha256 };
                let ambiguous = truth && multi_graph_trigger(&a) && rdfc_ref::alt_docs(&a, alg, BUDGET, 200).len() != 1;
                let sig = if ambiguous { AMBIGUOUS.to_string() } else { format!("{sig}/{kind}/{trig}") };
                ctx.fail(
                    sig,
                    format!("[{h}] exact isomorphism search says {truth}, byte equality of canonical forms says {same}\n A:\n{}\n B:\n{}\n c14n(A):\n{}\n c14n(B):\n{}", show_quads(&a), show_quads(&b), ca.nq, cm.nq),
                );
                return;
            }
            check_single(ctx, &b, &cm, h);
            if ctx.failed() {
                return;
            }
        }
    }
}

fn c06_unsupported(qs: &[MQ]) -> bool {
    qs.iter().any(|q| q.p.is_bnode() || q.terms().iter().any(|t| t.is_triple() || t.is_var() || (t.is_literal() && !std::ptr::eq(*t, &q.o))) || !q.p.is_iri() || !(q.s.is_iri() || q.s.is_bnode()))
}

pub fn main(opts: &Opts) -> i32 {
    drive::<C05>(opts)
}
pub fn worker(_args: &[String]) -> i32 {
    2
}
