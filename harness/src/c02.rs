//! C02 — term equality, hashing and ordering are lawful and implementation-independent.
//!
//! Every model term is *realised* in every shipped `Term` implementation that can hold it; the
//! observable results of `Term::eq / cmp / hash` (and of the std operator impls) on every ordered
//! pair of realisations are compared with the model (`model::MT`, written from the documentation).
//! `Term` is not object safe, so realisations are visited through a generic visitor.
use crate::engine::*;
use crate::gen;
use crate::model::*;
use proptest::prelude::*;
use rio_api::model as rio;
use serde::{Deserialize, Serialize};
use sophia_api::ns::Namespace;
use sophia_api::prelude::QuadParser;
use sophia_api::quad::Quad;
use sophia_api::source::QuadSource;
use sophia_api::term::{
    BnodeId, CmpTerm, FromTerm, IriRef, LanguageTag, SimpleTerm, Term, TermKind, TryFromTerm, VarName,
};
use sophia_api::MownStr;
use sophia_iri::Iri;
use sophia_rio::model::Trusted;
use sophia_sparql::ResultTerm;
use sophia_term::{ArcStrStash, ArcTerm, GenericLiteral, RcStrStash, RcTerm};
use std::borrow::Borrow;
use std::cmp::Ordering;
use std::collections::{BTreeSet, HashSet};
use std::hash::{Hash, Hasher};
use std::rc::Rc;
use std::sync::Arc;

#[derive(Clone, Debug, Serialize, Deserialize)]
pub struct Case {
    pub a: MT,
    pub b: MT,
    pub c: MT,
}

pub struct C02;

// =====================================================================================
// operator view of a realisation
// =====================================================================================

/// A hasher that is sensitive to the *sequence of calls*, not only to the concatenation of the bytes
/// (like FxHash / ahash / foldhash, unlike SipHash): equal terms must hash identically under any
/// `Hasher`, hence feed it the same calls.
struct SeqHasher(std::collections::hash_map::DefaultHasher);
impl Hasher for SeqHasher {
    fn write(&mut self, bytes: &[u8]) {
        self.0.write_usize(bytes.len());
        self.0.write(bytes);
    }
    fn finish(&self) -> u64 {
        self.0.finish()
    }
}
fn std_digest<T: Hash + ?Sized>(t: &T) -> u64 {
    let mut h = SeqHasher(std::collections::hash_map::DefaultHasher::new());
    t.hash(&mut h);
    h.finish()
}
fn term_digest<T: Term>(t: &T) -> u64 {
    let mut h = SeqHasher(std::collections::hash_map::DefaultHasher::new());
    Term::hash(t, &mut h);
    h.finish()
}

/// What the std operator impls of a type say (None = the type has no such impl).
pub trait Ops: Term {
    /// `triple()`, `constituents()`, ... may be called on non-triples
    const FULL: bool = true;
    fn op_eq<U: Term>(&self, _u: &U) -> Option<bool> {
        None
    }
    fn op_cmp<U: Term>(&self, _u: &U) -> Option<Option<Ordering>> {
        None
    }
    fn std_hash(&self) -> Option<u64> {
        None
    }
}

macro_rules! ops_full {
    ($($t:ty),* $(,)?) => {$(
        impl Ops for $t {
            fn op_eq<U: Term>(&self, u: &U) -> Option<bool> { Some(self == u) }
            fn op_cmp<U: Term>(&self, u: &U) -> Option<Option<Ordering>> { Some(self.partial_cmp(u)) }
            fn std_hash(&self) -> Option<u64> { Some(std_digest(self)) }
        }
        impl<'r> Ops for &'r $t {
            fn op_eq<U: Term>(&self, u: &U) -> Option<bool> { Some(**self == *u) }
            fn op_cmp<U: Term>(&self, u: &U) -> Option<Option<Ordering>> { Some((**self).partial_cmp(u)) }
            fn std_hash(&self) -> Option<u64> { Some(std_digest(*self)) }
        }
    )*};
}
ops_full!(SimpleTerm<'_>, ArcTerm, RcTerm);
impl Ops for ResultTerm {
    fn op_eq<U: Term>(&self, u: &U) -> Option<bool> {
        Some(self == u)
    }
    fn op_cmp<U: Term>(&self, u: &U) -> Option<Option<Ordering>> {
        Some(self.partial_cmp(u))
    }
    fn std_hash(&self) -> Option<u64> {
        Some(std_digest(self))
    }
}
impl<T: Borrow<str> + std::fmt::Debug> Ops for GenericLiteral<T> {
    fn op_eq<U: Term>(&self, u: &U) -> Option<bool> {
        Some(self == u)
    }
    fn op_cmp<U: Term>(&self, u: &U) -> Option<Option<Ordering>> {
        Some(self.partial_cmp(u))
    }
    fn std_hash(&self) -> Option<u64> {
        Some(std_digest(self))
    }
}
impl<'r, T: Borrow<str> + std::fmt::Debug> Ops for &'r GenericLiteral<T> {
    fn op_eq<U: Term>(&self, u: &U) -> Option<bool> {
        Some(**self == *u)
    }
    fn op_cmp<U: Term>(&self, u: &U) -> Option<Option<Ordering>> {
        Some((**self).partial_cmp(u))
    }
    fn std_hash(&self) -> Option<u64> {
        Some(std_digest(*self))
    }
}
impl<T: Ops> Ops for CmpTerm<T> {
    const FULL: bool = T::FULL;
    fn op_eq<U: Term>(&self, u: &U) -> Option<bool> {
        Some(self == u)
    }
    fn op_cmp<U: Term>(&self, u: &U) -> Option<Option<Ordering>> {
        Some(self.partial_cmp(u))
    }
    fn std_hash(&self) -> Option<u64> {
        Some(std_digest(self))
    }
}
impl Ops for sophia_api::ns::NsTerm<'_> {
    fn op_eq<U: Term>(&self, u: &U) -> Option<bool> {
        Some(self == u)
    }
}
impl<'r> Ops for &'r sophia_api::ns::NsTerm<'_> {
    fn op_eq<U: Term>(&self, u: &U) -> Option<bool> {
        Some(**self == *u)
    }
}
macro_rules! ops_none {
    ($($t:ty),* $(,)?) => {$( impl Ops for $t {} )*};
}
ops_none!(i32, isize, usize, f64, bool, &str);
impl<T: Borrow<str>> Ops for IriRef<T> {}
impl<'r, T: Borrow<str>> Ops for &'r IriRef<T> {}
impl<T: Borrow<str>> Ops for Iri<T> {}
impl<'r, T: Borrow<str>> Ops for &'r Iri<T> {}
impl<T: Borrow<str>> Ops for BnodeId<T> {}
impl<'r, T: Borrow<str>> Ops for &'r BnodeId<T> {}
impl<T: Borrow<str>> Ops for VarName<T> {}
impl<'r, T: Borrow<str>> Ops for &'r VarName<T> {}
ops_none!(
    Trusted<rio::NamedNode<'_>>,
    Trusted<rio::BlankNode<'_>>,
    Trusted<rio::Literal<'_>>,
    Trusted<rio::Variable<'_>>,
    Trusted<rio::GraphName<'_>>,
    Trusted<rio::Term<'_>>,
    Trusted<rio::GeneralizedTerm<'_>>,
);
impl<'r> Ops for &'r sophia_jsonld::parser::RdfTerm {}

/// Wrapper for term types that cannot be named from outside their crate (c14n's term type).
/// Everything — including eq / cmp / hash — is forwarded to the wrapped term.
#[derive(Clone, Copy, Debug)]
pub struct Opaque<T>(T);
impl<T: Term> Term for Opaque<T> {
    type BorrowTerm<'x>
        = Opaque<T::BorrowTerm<'x>>
    where
        T: 'x;
    fn kind(&self) -> TermKind {
        self.0.kind()
    }
    fn is_iri(&self) -> bool {
        self.0.is_iri()
    }
    fn is_blank_node(&self) -> bool {
        self.0.is_blank_node()
    }
    fn is_literal(&self) -> bool {
        self.0.is_literal()
    }
    fn is_variable(&self) -> bool {
        self.0.is_variable()
    }
    fn is_atom(&self) -> bool {
        self.0.is_atom()
    }
    fn is_triple(&self) -> bool {
        self.0.is_triple()
    }
    fn iri(&self) -> Option<IriRef<MownStr>> {
        self.0.iri()
    }
    fn bnode_id(&self) -> Option<BnodeId<MownStr>> {
        self.0.bnode_id()
    }
    fn lexical_form(&self) -> Option<MownStr> {
        self.0.lexical_form()
    }
    fn datatype(&self) -> Option<IriRef<MownStr>> {
        self.0.datatype()
    }
    fn language_tag(&self) -> Option<LanguageTag<MownStr>> {
        self.0.language_tag()
    }
    fn variable(&self) -> Option<VarName<MownStr>> {
        self.0.variable()
    }
    fn triple(&self) -> Option<[Self::BorrowTerm<'_>; 3]> {
        self.0.triple().map(|a| a.map(Opaque))
    }
    fn to_triple(self) -> Option<[Self; 3]> {
        self.0.to_triple().map(|a| a.map(Opaque))
    }
    fn borrow_term(&self) -> Self::BorrowTerm<'_> {
        Opaque(self.0.borrow_term())
    }
    fn eq<U: Term>(&self, other: U) -> bool {
        self.0.eq(other)
    }
    fn cmp<U: Term>(&self, other: U) -> Ordering {
        self.0.cmp(other)
    }
    fn hash<H: Hasher>(&self, state: &mut H) {
        self.0.hash(state)
    }
    fn into_term<U: FromTerm>(self) -> U {
        self.0.into_term()
    }
    fn try_into_term<U: TryFromTerm>(self) -> Result<U, U::Error> {
        self.0.try_into_term()
    }
}
impl<T: Term> Ops for Opaque<T> {
    // C14nTerm::triple() is `unimplemented!()`
    const FULL: bool = false;
}

pub trait Visitor {
    /// `exact`: the realisation is a conversion/copy of the intended model term and must read
    /// back identically (parsers, the JSON-LD processor and c14n relabelling may legitimately
    /// change the term; their realisations are judged against what their accessors say).
    fn visit<T: Ops>(&mut self, label: &'static str, exact: bool, t: T);
}

// =====================================================================================
// realisations
// =====================================================================================

fn is_xsd(dt: &str, l: &str) -> bool {
    dt.strip_prefix(XSD) == Some(l)
}

/// everything that can be built once per model term and lent to visitors
pub struct Owned {
    m: MT,
    st: SimpleTerm<'static>,
    arc: ArcTerm,
    rc: RcTerm,
    stash_arc: ArcTerm,
    stash_rc: RcTerm,
    cmp_st: CmpTerm<SimpleTerm<'static>>,
    res: ResultTerm,
    /// the same, with its lazily computed SPARQL value already cached (`value()` was called)
    res_warm: ResultTerm,
    iri_string: Option<IriRef<String>>,
    iri_arc: Option<IriRef<Arc<str>>>,
    abs_iri: Option<Iri<String>>,
    /// every split of the IRI into a valid namespace + suffix (validated once, here)
    ns_splits: Vec<(IriRef<String>, String)>,
    dt_iri: Option<IriRef<String>>,
    /// namespace/suffix split of the datatype IRI at its last '#', for the `str * NsTerm` operator
    dt_split: Option<(IriRef<String>, String)>,
    tag: Option<LanguageTag<String>>,
    bn_string: Option<BnodeId<String>>,
    bn_arc: Option<BnodeId<Arc<str>>>,
    var_string: Option<VarName<String>>,
    gl_string: Option<GenericLiteral<String>>,
    gl_arc: Option<GenericLiteral<Arc<str>>>,
    gl_rc: Option<GenericLiteral<Rc<str>>>,
    gl_box: Option<GenericLiteral<Box<str>>>,
    nat_i32: Option<i32>,
    nat_isize: Option<isize>,
    nat_usize: Option<usize>,
    nat_f64: Option<f64>,
    nat_bool: Option<bool>,
    nq_text: String,
    strict: bool,
    jsonld_text: Option<String>,
    /// the object of the single quad the JSON-LD parser produced for `jsonld_text` (parsed once:
    /// the processor is slow, and its terms are owned)
    jsonld_term: Option<sophia_jsonld::parser::RdfTerm>,
}

fn nq_escape(s: &str, out: &mut String) {
    for c in s.chars() {
        match c {
            '"' => out.push_str("\\\""),
            '\\' => out.push_str("\\\\"),
            '\n' => out.push_str("\\n"),
            '\r' => out.push_str("\\r"),
            '\t' => out.push_str("\\t"),
            c if (c as u32) < 0x20 || c == '\u{7f}' => out.push_str(&format!("\\u{:04X}", c as u32)),
            c => out.push(c),
        }
    }
}
/// own N-Quads-star (generalized) writer
fn nq_term(m: &MT, out: &mut String) {
    match m {
        MT::Iri(i) => {
            out.push('<');
            out.push_str(i);
            out.push('>');
        }
        MT::Bnode(b) => {
            out.push_str("_:");
            out.push_str(b);
        }
        MT::Var(v) => {
            out.push('?');
            out.push_str(v);
        }
        MT::Lit(l, d) => {
            out.push('"');
            nq_escape(l, out);
            out.push('"');
            if d != XSD_STRING {
                out.push_str("^^<");
                out.push_str(d);
                out.push('>');
            }
        }
        MT::Lang(l, t) => {
            out.push('"');
            nq_escape(l, out);
            out.push_str("\"@");
            out.push_str(t);
        }
        MT::Triple(t) => {
            out.push_str("<< ");
            nq_term(&t[0], out);
            out.push(' ');
            nq_term(&t[1], out);
            out.push(' ');
            nq_term(&t[2], out);
            out.push_str(" >>");
        }
    }
}

fn is_abs(i: &str) -> bool {
    Iri::new(i).is_ok()
}
/// strict RDF-star term usable as an object (absolute IRIs only: the strict parsers resolve nothing)
fn strict_obj(m: &MT) -> bool {
    match m {
        MT::Iri(i) => is_abs(i),
        MT::Bnode(_) | MT::Lang(..) => true,
        MT::Lit(_, d) => is_abs(d),
        MT::Var(_) => false,
        MT::Triple(t) => strict_subj(&t[0]) && matches!(&t[1], MT::Iri(i) if is_abs(i)) && strict_obj(&t[2]),
    }
}
fn strict_subj(m: &MT) -> bool {
    match m {
        MT::Iri(_) | MT::Bnode(_) | MT::Triple(_) => strict_obj(m),
        _ => false,
    }
}

impl Owned {
    pub fn new(m: &MT) -> Owned {
        let st = m.to_simple();
        let arc: ArcTerm = (&st).into_term();
        let rc: RcTerm = (&st).into_term();
        let stash_arc = ArcStrStash::new().copy_term(&st);
        let stash_rc = RcStrStash::new().copy_term(&arc);
        let cmp_st: CmpTerm<SimpleTerm<'static>> = (&arc).into_term();
        let res: ResultTerm = arc.clone().into();
        let res_warm: ResultTerm = arc.clone().into();
        let _ = res_warm.value();
        let mut o = Owned {
            m: m.clone(),
            st,
            arc,
            rc,
            stash_arc,
            stash_rc,
            cmp_st,
            res,
            res_warm,
            iri_string: None,
            iri_arc: None,
            abs_iri: None,
            ns_splits: vec![],
            dt_iri: None,
            dt_split: None,
            tag: None,
            bn_string: None,
            bn_arc: None,
            var_string: None,
            gl_string: None,
            gl_arc: None,
            gl_rc: None,
            gl_box: None,
            nat_i32: None,
            nat_isize: None,
            nat_usize: None,
            nat_f64: None,
            nat_bool: None,
            nq_text: String::new(),
            strict: strict_obj(m),
            jsonld_text: None,
            jsonld_term: None,
        };
        nq_term(m, &mut o.nq_text);
        match m {
            MT::Iri(i) => {
                o.iri_string = Some(IriRef::new_unchecked(i.clone()));
                o.iri_arc = Some(IriRef::new_unchecked(Arc::from(i.as_str())));
                o.abs_iri = Iri::new(i.clone()).ok();
                for (k, _) in i.char_indices().chain(std::iter::once((i.len(), ' '))) {
                    if let Ok(ns) = Namespace::new(&i[..k]) {
                        if ns.get(&i[k..]).is_ok() {
                            o.ns_splits.push((IriRef::new_unchecked(i[..k].to_string()), i[k..].to_string()));
                        }
                    }
                }
                if is_abs(i) {
                    o.jsonld_text = Some(serde_json::json!([{"@id": "http://x/s", "http://x/p": [{"@id": i}]}]).to_string());
                }
            }
            MT::Bnode(b) => {
                o.bn_string = Some(BnodeId::new_unchecked(b.clone()));
                o.bn_arc = Some(BnodeId::new_unchecked(Arc::from(b.as_str())));
                o.jsonld_text = Some(serde_json::json!([{"@id": "http://x/s", "http://x/p": [{"@id": format!("_:{b}")}]}]).to_string());
            }
            MT::Var(v) => {
                o.var_string = Some(VarName::new_unchecked(v.clone()));
            }
            MT::Lit(l, d) => {
                o.dt_iri = Some(IriRef::new_unchecked(d.clone()));
                if let Some((ns, sfx)) = d.rsplit_once('#') {
                    let nsi = format!("{ns}#");
                    if let Ok(ns) = Namespace::new(nsi.as_str()) {
                        if ns.get(sfx).is_ok() {
                            o.dt_split = Some((IriRef::new_unchecked(nsi.clone()), sfx.to_string()));
                        }
                    }
                }
                o.gl_string = Some(GenericLiteral::Typed(l.clone(), IriRef::new_unchecked(d.clone())));
                o.gl_arc = GenericLiteral::try_from_term(&o.st).ok();
                o.gl_rc = GenericLiteral::try_from_term(&o.arc).ok();
                o.gl_box = GenericLiteral::try_from_term(&o.rc).ok();
                if is_xsd(d, "integer") {
                    o.nat_i32 = l.parse::<i32>().ok().filter(|v| v.to_string() == *l);
                    o.nat_isize = l.parse::<isize>().ok().filter(|v| v.to_string() == *l);
                    o.nat_usize = l.parse::<usize>().ok().filter(|v| v.to_string() == *l);
                }
                if is_xsd(d, "boolean") {
                    o.nat_bool = match l.as_str() {
                        "true" => Some(true),
                        "false" => Some(false),
                        _ => None,
                    };
                }
                if is_xsd(d, "double") {
                    // the literal is the image of an f64 iff that f64 says so itself
                    o.nat_f64 = l.parse::<f64>().ok().filter(|v| v.lexical_form().map(|x| x.to_string()) == Some(l.clone()));
                }
                if is_abs(d) {
                    o.jsonld_text = Some(
                        serde_json::json!([{"@id": "http://x/s", "http://x/p": [{"@value": l, "@type": d}]}]).to_string(),
                    );
                }
            }
            MT::Lang(l, t) => {
                o.tag = Some(LanguageTag::new_unchecked(t.clone()));
                o.gl_string = Some(GenericLiteral::LanguageString(l.clone(), LanguageTag::new_unchecked(t.clone())));
                o.gl_arc = GenericLiteral::try_from_term(&o.st).ok();
                o.gl_rc = GenericLiteral::try_from_term(&o.arc).ok();
                o.gl_box = GenericLiteral::try_from_term(&o.rc).ok();
                o.jsonld_text = Some(
                    serde_json::json!([{"@id": "http://x/s", "http://x/p": [{"@value": l, "@language": t}]}]).to_string(),
                );
            }
            MT::Triple(_) => {}
        }
        if let Some(doc) = &o.jsonld_text {
            let mut got = vec![];
            let r = catch(|| sophia_jsonld::JsonLdParser::new().parse_str(doc).for_each_quad(|q| got.push(q.0[2].clone())));
            if matches!(r, Ok(Ok(()))) && got.len() == 1 {
                o.jsonld_term = got.pop();
            }
        }
        o
    }

    /// cheap realisations (no parsing)
    pub fn visit_light<V: Visitor>(&self, v: &mut V) {
        v.visit("SimpleTerm", true, &self.st);
        v.visit("SimpleTerm(owned)", true, self.st.clone());
        v.visit("SimpleTerm(from_term_ref)", true, SimpleTerm::from_term_ref(&self.arc));
        v.visit("SimpleTerm(as_simple)", true, self.rc.as_simple());
        v.visit("ArcTerm", true, &self.arc);
        v.visit("ArcTerm(owned)", true, self.arc.clone());
        v.visit("RcTerm", true, &self.rc);
        v.visit("ArcStrStash::copy_term", true, &self.stash_arc);
        v.visit("RcStrStash::copy_term", true, &self.stash_rc);
        v.visit("CmpTerm<&SimpleTerm>", true, self.cmp_st.borrow_term());
        v.visit("CmpTerm<&ArcTerm>", true, CmpTerm(&self.arc));
        v.visit("CmpTerm<RcTerm>", true, CmpTerm(self.rc.clone()));
        v.visit("ResultTerm", true, self.res.clone());
        v.visit("ResultTerm(value cached)", true, self.res_warm.clone());
        with_gen(&self.m, &mut |g| v.visit("Trusted<GeneralizedTerm>(built)", true, Trusted(g)));
        if self.strict {
            with_rio(&self.m, &mut |t| v.visit("Trusted<RioTerm>(built)", true, Trusted(t)));
        }
        if let Some(t) = &self.jsonld_term {
            v.visit("jsonld-parser", false, t);
        }
        match &self.m {
            MT::Iri(i) => {
                // (borrowed wrappers are derived from the owned ones: `new_unchecked` re-validates in this profile)
                let owned = self.iri_string.as_ref().unwrap();
                v.visit("IriRef<&str>", true, owned.as_ref());
                v.visit("IriRef<String>", true, owned);
                v.visit("IriRef<Arc<str>>", true, self.iri_arc.as_ref().unwrap().clone());
                v.visit("IriRef<MownStr>", true, owned.as_ref().map_unchecked(MownStr::from_ref));
                if let Some(a) = &self.abs_iri {
                    v.visit("Iri<&str>", true, a.as_ref());
                    v.visit("Iri<String>", true, a);
                }
                for (n, (ns, sfx)) in self.ns_splits.iter().enumerate() {
                    let t = sophia_api::ns::NsTerm::new_unchecked(ns.as_ref(), sfx.as_str());
                    v.visit("NsTerm", true, t);
                    if n == 0 {
                        v.visit("&NsTerm", true, &t);
                        v.visit("NsTerm::to_iriref", true, t.to_iriref());
                    }
                }
                v.visit("Trusted<NamedNode>", true, Trusted(rio::NamedNode { iri: i }));
                v.visit("Trusted<GraphName>", true, Trusted(rio::GraphName::NamedNode(rio::NamedNode { iri: i })));
            }
            MT::Bnode(b) => {
                v.visit("BnodeId<&str>", true, self.bn_string.as_ref().unwrap().as_ref());
                v.visit("BnodeId<String>", true, self.bn_string.as_ref().unwrap());
                v.visit("BnodeId<Arc<str>>", true, self.bn_arc.as_ref().unwrap().clone());
                v.visit("Trusted<BlankNode>", true, Trusted(rio::BlankNode { id: b }));
                v.visit("Trusted<GraphName>", true, Trusted(rio::GraphName::BlankNode(rio::BlankNode { id: b })));
            }
            MT::Var(n) => {
                v.visit("VarName<&str>", true, self.var_string.as_ref().unwrap().as_ref());
                v.visit("VarName<String>", true, self.var_string.as_ref().unwrap());
                v.visit("Trusted<Variable>", true, Trusted(rio::Variable { name: n }));
            }
            MT::Lit(l, d) => {
                v.visit("GenericLiteral<String>", true, self.gl_string.as_ref().unwrap());
                v.visit("GenericLiteral<Arc<str>>", true, self.gl_arc.as_ref().unwrap().clone());
                v.visit("GenericLiteral<Rc<str>>", true, self.gl_rc.as_ref().unwrap());
                v.visit("GenericLiteral<Box<str>>", true, self.gl_box.as_ref().unwrap());
                v.visit("GenericLiteral<&str>", true, GenericLiteral::Typed(l.as_str(), self.dt_iri.as_ref().unwrap().as_ref()));
                if is_abs(d) {
                    v.visit(
                        "Trusted<Literal::Typed>",
                        true,
                        Trusted(rio::Literal::Typed { value: l, datatype: rio::NamedNode { iri: d } }),
                    );
                }
                if d == XSD_STRING {
                    v.visit("&str", true, l.as_str());
                    v.visit("Trusted<Literal::Simple>", true, Trusted(rio::Literal::Simple { value: l }));
                }
                // lexical * datatype operator
                if let Some((ns, sfx)) = &self.dt_split {
                    v.visit("str*NsTerm", true, l.as_str() * sophia_api::ns::NsTerm::new_unchecked(ns.as_ref(), sfx.as_str()));
                }
                if let Some(n) = self.nat_i32 {
                    v.visit("i32", true, n);
                }
                if let Some(n) = self.nat_isize {
                    v.visit("isize", true, n);
                }
                if let Some(n) = self.nat_usize {
                    v.visit("usize", true, n);
                }
                if let Some(n) = self.nat_f64 {
                    v.visit("f64", true, n);
                }
                if let Some(n) = self.nat_bool {
                    v.visit("bool", true, n);
                }
            }
            MT::Lang(l, t) => {
                v.visit("GenericLiteral<String>", true, self.gl_string.as_ref().unwrap());
                v.visit("GenericLiteral<Arc<str>>", true, self.gl_arc.as_ref().unwrap().clone());
                v.visit("GenericLiteral<Rc<str>>", true, self.gl_rc.as_ref().unwrap());
                v.visit("GenericLiteral<Box<str>>", true, self.gl_box.as_ref().unwrap());
                v.visit(
                    "GenericLiteral<&str>",
                    true,
                    GenericLiteral::LanguageString(l.as_str(), self.tag.as_ref().unwrap().as_ref()),
                );
                v.visit(
                    "Trusted<Literal::LanguageTaggedString>",
                    true,
                    Trusted(rio::Literal::LanguageTaggedString { value: l, language: t }),
                );
                v.visit("str*LanguageTag", true, l.as_str() * self.tag.as_ref().unwrap().as_ref());
            }
            MT::Triple(t) => {
                let spo = [t[0].to_simple(), t[1].to_simple(), t[2].to_simple()];
                v.visit("SimpleTerm::from_triple", true, SimpleTerm::from_triple(spo.clone()));
                v.visit("SimpleTerm::from_triple([ArcTerm;3])", true, SimpleTerm::from_triple(spo.clone().map(|x| x.into_term::<ArcTerm>())));
            }
        }
    }

    /// parser-backed realisations (terms only alive inside a parser callback), JSON-LD, c14n
    pub fn visit_heavy<V: Visitor>(&self, v: &mut V, skipped: &mut Vec<&'static str>) {
        // generalized N-Quads: any term as object
        {
            let doc = format!("<http://x/s> <http://x/p> {} .\n", self.nq_text);
            let mut n = 0;
            let r = catch(|| {
                sophia_turtle::parser::gnq::parse_str(&doc).for_each_quad(|q| {
                    n += 1;
                    v.visit("gnq-parser", false, q.o());
                })
            });
            match r {
                Err(_) => skipped.push("gnq-parser(panicked)"),
                Ok(r) => {
                    if r.is_err() || n != 1 {
                        skipped.push("gnq-parser");
                    }
                }
            }
        }
        if self.strict {
            let doc = format!("<http://x/s> <http://x/p> {} .\n", self.nq_text);
            let mut n = 0;
            let r = sophia_turtle::parser::nq::parse_str(&doc).for_each_quad(|q| {
                n += 1;
                v.visit("nq-parser", false, q.o());
            });
            if r.is_err() || n != 1 {
                skipped.push("nq-parser");
            }
            // subject / graph-name positions
            if strict_subj(&self.m) && !self.m.is_triple() {
                let doc = format!("{0} <http://x/p> <http://x/o> {0} .\n", self.nq_text);
                let r = sophia_turtle::parser::nq::parse_str(&doc).for_each_quad(|q| {
                    v.visit("nq-parser(subject)", false, q.s());
                    if let Some(g) = q.g() {
                        v.visit("nq-parser(graph)", false, g);
                    }
                });
                if r.is_err() {
                    skipped.push("nq-parser(subject)");
                }
            }
        }
        if self.jsonld_text.is_some() && self.jsonld_term.is_none() {
            skipped.push("jsonld-parser");
        }
        if !self.m.is_triple() && !self.m.is_var() {
            let mut d: HashSet<sophia_api::quad::Spog<SimpleTerm<'static>>> = HashSet::new();
            d.insert((
                [IriRef::new_unchecked("http://x/s").into_term(), IriRef::new_unchecked("http://x/p").into_term(), self.st.clone()],
                None,
            ));
            match sophia_c14n::rdfc10::relabel(&d) {
                Ok((quads, _)) => {
                    for q in &quads {
                        // blank nodes get a canonical label: judged against their own accessors
                        v.visit("c14n-relabel", !self.m.is_bnode(), Opaque(q.o()));
                    }
                }
                Err(_) => skipped.push("c14n-relabel"),
            }
        }
    }
}

/// build a rio generalized term on the stack and hand it to `k`
fn with_gen<'m>(m: &'m MT, k: &mut dyn FnMut(rio::GeneralizedTerm<'_>)) {
    use rio::GeneralizedTerm as G;
    match m {
        MT::Iri(i) => k(G::NamedNode(rio::NamedNode { iri: i })),
        MT::Bnode(b) => k(G::BlankNode(rio::BlankNode { id: b })),
        MT::Var(v) => k(G::Variable(rio::Variable { name: v })),
        // (rio's Trusted<> literals must carry an absolute datatype IRI)
        MT::Lit(l, d) => {
            if is_abs(d) {
                k(G::Literal(rio::Literal::Typed { value: l, datatype: rio::NamedNode { iri: d } }))
            }
        }
        MT::Lang(l, t) => k(G::Literal(rio::Literal::LanguageTaggedString { value: l, language: t })),
        MT::Triple(t) => with_gen(&t[0], &mut |s| {
            with_gen(&t[1], &mut |p| {
                with_gen(&t[2], &mut |o| {
                    let arr = [s, p, o];
                    k(G::Triple(&arr))
                })
            })
        }),
    }
}
/// build a strict rio term (caller checked `strict_obj`)
fn with_rio<'m>(m: &'m MT, k: &mut dyn FnMut(rio::Term<'_>)) {
    use rio::Term as T;
    match m {
        MT::Iri(i) => k(T::NamedNode(rio::NamedNode { iri: i })),
        MT::Bnode(b) => k(T::BlankNode(rio::BlankNode { id: b })),
        MT::Var(_) => {}
        MT::Lit(l, d) => {
            if d == XSD_STRING {
                k(T::Literal(rio::Literal::Simple { value: l }))
            } else {
                k(T::Literal(rio::Literal::Typed { value: l, datatype: rio::NamedNode { iri: d } }))
            }
        }
        MT::Lang(l, t) => k(T::Literal(rio::Literal::LanguageTaggedString { value: l, language: t })),
        MT::Triple(t) => {
            let MT::Iri(p) = &t[1] else { return };
            with_rio(&t[0], &mut |s| {
                let subject = match s {
                    T::NamedNode(n) => rio::Subject::NamedNode(n),
                    T::BlankNode(b) => rio::Subject::BlankNode(b),
                    T::Triple(t) => rio::Subject::Triple(t),
                    T::Literal(_) => return,
                };
                with_rio(&t[2], &mut |o| {
                    let tr = rio::Triple { subject, predicate: rio::NamedNode { iri: p }, object: o };
                    k(T::Triple(&tr))
                })
            })
        }
    }
}

// =====================================================================================
// observations
// =====================================================================================

fn kind_name(m: &MT) -> &'static str {
    match m {
        MT::Iri(_) => "iri",
        MT::Bnode(_) => "bnode",
        MT::Lit(..) => "literal",
        MT::Lang(..) => "lang-literal",
        MT::Triple(_) => "triple",
        MT::Var(_) => "variable",
    }
}
/// how two model terms relate (the trigger part of signatures; also a class label)
fn relation(a: &MT, b: &MT) -> String {
    if a == b {
        if a.same_repr(b) {
            "equal".into()
        } else {
            "equal-up-to-tag-case".into()
        }
    } else if a.rank() != b.rank() {
        format!("{}-vs-{}", kind_name(a), kind_name(b))
    } else {
        match (a, b) {
            (MT::Lang(l1, t1), MT::Lang(l2, t2)) => {
                if l1 == l2 {
                    "lang-literals-differ-in-tag".into()
                } else if t1.eq_ignore_ascii_case(t2) {
                    "lang-literals-differ-in-lexical".into()
                } else {
                    "lang-literals-differ".into()
                }
            }
            (MT::Lit(l1, d1), MT::Lit(l2, d2)) => {
                if l1 == l2 {
                    "literals-differ-in-datatype".into()
                } else if d1 == d2 {
                    "literals-differ-in-lexical".into()
                } else {
                    "literals-differ".into()
                }
            }
            (MT::Lit(l1, _), MT::Lang(l2, _)) | (MT::Lang(l1, _), MT::Lit(l2, _)) => {
                if l1 == l2 {
                    "typed-vs-lang-same-lexical".into()
                } else {
                    "typed-vs-lang".into()
                }
            }
            (MT::Iri(x), MT::Iri(y)) => {
                if x.starts_with(y.as_str()) || y.starts_with(x.as_str()) {
                    "iris-one-prefix-of-other".into()
                } else {
                    "iris-differ".into()
                }
            }
            (MT::Triple(x), MT::Triple(y)) => {
                let same = (0..3).filter(|i| x[*i] == y[*i]).count();
                format!("triples-sharing-{same}")
            }
            _ => format!("{}s-differ", kind_name(a)),
        }
    }
}

struct PairObs {
    e1: bool,
    e2: bool,
    c1: Ordering,
    c2: Ordering,
    ha: u64,
    hb: u64,
    op_eq: Option<bool>,
    op_eq_rev: Option<bool>,
    op_cmp: Option<Option<Ordering>>,
    op_cmp_rev: Option<Option<Ordering>>,
    sh_a: Option<u64>,
    sh_b: Option<u64>,
}

#[inline(never)]
fn observe<T: Ops, U: Ops>(ta: &T, tb: &U) -> PairObs {
    PairObs {
        e1: Term::eq(ta, tb.borrow_term()),
        e2: Term::eq(tb, ta.borrow_term()),
        c1: Term::cmp(ta, tb.borrow_term()),
        c2: Term::cmp(tb, ta.borrow_term()),
        ha: term_digest(ta),
        hb: term_digest(tb),
        op_eq: ta.op_eq(tb),
        op_eq_rev: tb.op_eq(ta),
        op_cmp: ta.op_cmp(tb),
        op_cmp_rev: tb.op_cmp(ta),
        sh_a: ta.std_hash(),
        sh_b: tb.std_hash(),
    }
}

fn judge(ctx: &mut Ctx, la: &str, lb: &str, ma: &MT, mb: &MT, o: &PairObs) {
    let exp_eq = ma == mb;
    let exp_cmp = ma.cmp(mb);
    let mut bad = |ctx: &mut Ctx, law: &str, left: &str, right: &str, what: String| {
        ctx.fail(
            format!("{law}/{left}/{}", relation(ma, mb)),
            format!("{left} {} vs {right} {}: {what}", if left == la { ma.show() } else { mb.show() }, if left == la { mb.show() } else { ma.show() }),
        );
    };
    if o.e1 != exp_eq {
        bad(ctx, "eq", la, lb, format!("Term::eq = {}, terms are {}", o.e1, if exp_eq { "equal" } else { "different" }));
    }
    if o.e2 != exp_eq {
        bad(ctx, "eq", lb, la, format!("Term::eq = {}, terms are {}", o.e2, if exp_eq { "equal" } else { "different" }));
    }
    if o.c1 != exp_cmp {
        bad(ctx, "cmp", la, lb, format!("Term::cmp = {:?}, documented order gives {exp_cmp:?}", o.c1));
    }
    if o.c2 != exp_cmp.reverse() {
        bad(ctx, "cmp", lb, la, format!("Term::cmp = {:?}, documented order gives {:?}", o.c2, exp_cmp.reverse()));
    }
    if exp_eq && o.ha != o.hb {
        bad(ctx, "hash", la, lb, format!("equal terms, Term::hash digests {:#x} != {:#x}", o.ha, o.hb));
    }
    if let Some(e) = o.op_eq {
        if e != exp_eq {
            bad(ctx, "op-eq", la, lb, format!("`==` gives {e}"));
        }
    }
    if let Some(e) = o.op_eq_rev {
        if e != exp_eq {
            bad(ctx, "op-eq", lb, la, format!("`==` gives {e}"));
        }
    }
    if let Some(c) = o.op_cmp {
        if c != Some(exp_cmp) {
            bad(ctx, "op-cmp", la, lb, format!("partial_cmp gives {c:?}, expected {exp_cmp:?}"));
        }
    }
    if let Some(c) = o.op_cmp_rev {
        if c != Some(exp_cmp.reverse()) {
            bad(ctx, "op-cmp", lb, la, format!("partial_cmp gives {c:?}, expected {:?}", exp_cmp.reverse()));
        }
    }
    if let Some(s) = o.sh_a {
        if s != o.ha {
            bad(ctx, "std-hash", la, lb, format!("std Hash digest {s:#x} differs from Term::hash digest {:#x}", o.ha));
        }
    }
    if let (Some(x), Some(y)) = (o.sh_a, o.sh_b) {
        if exp_eq && x != y {
            bad(ctx, "std-hash", la, lb, format!("equal terms, std Hash digests {x:#x} != {y:#x}"));
        }
    }
}

fn is_heavy(label: &str) -> bool {
    label.contains("-parser") || label.starts_with("c14n")
}

/// inner visitor: the right-hand side of a pair
struct Inner<'x, T: Ops> {
    ctx: &'x mut Ctx,
    la: &'static str,
    ta: &'x T,
    ma: &'x MT,
    mb_intended: &'x MT,
    pairs: u64,
}
impl<T: Ops> Visitor for Inner<'_, T> {
    fn visit<U: Ops>(&mut self, lb: &'static str, exact: bool, tb: U) {
        self.pairs += 1;
        let actual;
        let mb = if exact {
            self.mb_intended
        } else {
            actual = MT::from_term(tb.borrow_term());
            &actual
        };
        let o = observe(self.ta, &tb);
        judge(self.ctx, self.la, lb, self.ma, mb, &o);
    }
}

/// outer visitor: the left-hand side of a pair
struct Outer<'x> {
    ctx: &'x mut Ctx,
    ma_intended: &'x MT,
    b: &'x Owned,
    pairs: u64,
}
impl Visitor for Outer<'_> {
    fn visit<T: Ops>(&mut self, la: &'static str, exact: bool, ta: T) {
        let actual;
        let ma = if exact {
            self.ma_intended
        } else {
            actual = MT::from_term(ta.borrow_term());
            &actual
        };
        let mut inner = Inner { ctx: &mut *self.ctx, la, ta: &ta, ma, mb_intended: &self.b.m, pairs: 0 };
        self.b.visit_light(&mut inner);
        if is_heavy(la) {
            let mut sk = vec![];
            self.b.visit_heavy(&mut inner, &mut sk);
        }
        self.pairs += inner.pairs;
    }
}

// ------------------------------------------------------------------ unary checks

struct ConvObs {
    m: MT,
    eq: bool,
    eq_rev: bool,
    cmp: Ordering,
    h_same: bool,
}
#[inline(never)]
fn conv_obs<T: Term, C: Term>(t: &T, c: C) -> ConvObs {
    ConvObs {
        m: MT::from_term(c.borrow_term()),
        eq: Term::eq(t, c.borrow_term()),
        eq_rev: Term::eq(&c, t.borrow_term()),
        cmp: Term::cmp(t, c.borrow_term()),
        h_same: term_digest(t) == term_digest(&c),
    }
}

struct Unary<'x> {
    ctx: &'x mut Ctx,
    intended: &'x MT,
    count: u64,
}
impl Unary<'_> {
    fn conv(&mut self, label: &str, path: &str, actual: &MT, o: ConvObs) {
        if o.m == *actual && !o.m.same_repr(actual) {
            // equal but not identical (language tag case changed): allowed by the statement
            self.ctx.class(format!("conversion-changes-tag-case:{path}"));
        }
        if o.m != *actual {
            self.ctx.fail(
                format!("conv/{path}/{}", kind_name(actual)),
                format!("{label} {} --{path}--> {}", actual.show(), o.m.show()),
            );
        }
        if !(o.eq && o.eq_rev && o.cmp == Ordering::Equal && o.h_same) {
            self.ctx.fail(
                format!("conv-eq/{path}/{label}/{}", kind_name(actual)),
                format!(
                    "{label} {} --{path}--> {}: eq={} rev-eq={} cmp={:?} same-hash={}",
                    actual.show(),
                    o.m.show(),
                    o.eq,
                    o.eq_rev,
                    o.cmp,
                    o.h_same
                ),
            );
        }
    }
}
impl Visitor for Unary<'_> {
    fn visit<T: Ops>(&mut self, label: &'static str, exact: bool, t: T) {
        self.count += 1;
        self.ctx.class(format!("impl:{label}"));
        let actual = MT::from_term(t.borrow_term());
        let kn = kind_name(&actual);
        if exact && actual != *self.intended {
            self.ctx.fail(
                format!("repr/{label}/{}", kind_name(self.intended)),
                format!("{label} built from {} reads back as {}", self.intended.show(), actual.show()),
            );
            return;
        }
        if !exact && !actual.same_repr(self.intended) {
            self.ctx.class(format!("changed-by:{label}"));
        }
        // accessor consistency with kind()
        let k = t.kind();
        let flags = [
            (t.is_iri(), k == TermKind::Iri),
            (t.is_blank_node(), k == TermKind::BlankNode),
            (t.is_literal(), k == TermKind::Literal),
            (t.is_variable(), k == TermKind::Variable),
            (t.is_triple(), k == TermKind::Triple),
            (t.is_atom(), k != TermKind::Triple),
            (t.iri().is_some(), k == TermKind::Iri),
            (t.bnode_id().is_some(), k == TermKind::BlankNode),
            (t.lexical_form().is_some(), k == TermKind::Literal),
            (t.datatype().is_some(), k == TermKind::Literal),
            (t.variable().is_some(), k == TermKind::Variable),
        ];
        if flags.iter().any(|(a, b)| a != b) {
            self.ctx.fail(format!("accessors/{label}/{kn}"), format!("{label} {}: is_*/accessors inconsistent with kind {k:?}: {flags:?}", actual.show()));
        }
        if t.language_tag().is_some() != matches!(actual, MT::Lang(..)) {
            self.ctx.fail(format!("accessors/{label}/{kn}"), format!("{label} {}: language_tag inconsistent", actual.show()));
        }
        if let MT::Lang(..) = actual {
            if t.datatype().map(|d| d.as_str().to_string()) != Some(RDF_LANGSTRING.to_string()) {
                self.ctx.fail(format!("accessors/{label}/{kn}"), format!("{label} {}: datatype of a language string is not rdf:langString", actual.show()));
            }
        }
        if T::FULL {
            if t.triple().is_some() != (k == TermKind::Triple) {
                self.ctx.fail(format!("accessors/{label}/{kn}"), format!("{label} {}: triple() inconsistent with kind", actual.show()));
            }
            let mut cs = vec![];
            actual.constituents(&mut cs);
            let mut ats = vec![];
            actual.atoms(&mut ats);
            let got_c: Vec<MT> = t.constituents().map(MT::from_term).collect();
            let got_a: Vec<MT> = t.atoms().map(MT::from_term).collect();
            let same = |g: &[MT], e: &[&MT]| g.len() == e.len() && g.iter().zip(e).all(|(x, y)| x.same_repr(y));
            if !same(&got_c, &cs) || !same(&got_a, &ats) {
                self.ctx.fail(format!("constituents/{label}/{kn}"), format!("{label} {}: constituents()/atoms() differ from the term structure", actual.show()));
            }
            if let Some(tr) = t.borrow_term().to_triple() {
                let got: Vec<MT> = tr.into_iter().map(MT::from_term).collect();
                if let MT::Triple(e) = &actual {
                    if !(0..3).all(|i| got[i].same_repr(&e[i])) {
                        self.ctx.fail(format!("to_triple/{label}"), format!("{label} {}: to_triple() differs", actual.show()));
                    }
                }
                let o = conv_obs(&t, SimpleTerm::from_triple(t.triple().unwrap()));
                self.conv(label, "SimpleTerm::from_triple", &actual, o);
            }
        }
        // reflexivity and stability
        let o = conv_obs(&t, t.borrow_term());
        self.conv(label, "borrow_term", &actual, o);
        if term_digest(&t) != term_digest(&t) {
            self.ctx.fail(format!("hash-unstable/{label}"), format!("{label} {}", actual.show()));
        }
        // conversion paths
        let o = conv_obs(&t, t.borrow_term().into_term::<SimpleTerm<'static>>());
        self.conv(label, "into_term::<SimpleTerm>", &actual, o);
        let o = conv_obs(&t, t.borrow_term().try_into_term::<SimpleTerm<'static>>().unwrap());
        self.conv(label, "try_into_term::<SimpleTerm>", &actual, o);
        let o = conv_obs(&t, t.as_simple());
        self.conv(label, "as_simple", &actual, o);
        let o = conv_obs(&t, SimpleTerm::from_term_ref(&t));
        self.conv(label, "SimpleTerm::from_term_ref", &actual, o);
        let arc = t.borrow_term().into_term::<ArcTerm>();
        let o = conv_obs(&t, &arc);
        self.conv(label, "into_term::<ArcTerm>", &actual, o);
        let o = conv_obs(&t, t.borrow_term().into_term::<RcTerm>());
        self.conv(label, "into_term::<RcTerm>", &actual, o);
        let o = conv_obs(&t, t.borrow_term().into_term::<CmpTerm<SimpleTerm<'static>>>());
        self.conv(label, "into_term::<CmpTerm<SimpleTerm>>", &actual, o);
        let o = conv_obs(&t, t.borrow_term().try_into_term::<CmpTerm<SimpleTerm<'static>>>().unwrap());
        self.conv(label, "try_into_term::<CmpTerm<SimpleTerm>>", &actual, o);
        let o = conv_obs(&t, CmpTerm(t.borrow_term()));
        self.conv(label, "CmpTerm(borrow_term)", &actual, o);
        let o = conv_obs(&t, ArcStrStash::new().copy_term(t.borrow_term()));
        self.conv(label, "ArcStrStash::copy_term", &actual, o);
        let o = conv_obs(&t, RcStrStash::new().copy_term(t.borrow_term()));
        self.conv(label, "RcStrStash::copy_term", &actual, o);
        let o = conv_obs(&t, ResultTerm::from(arc));
        self.conv(label, "ResultTerm::from", &actual, o);
        match t.borrow_term().try_into_term::<GenericLiteral<Arc<str>>>() {
            Ok(gl) => {
                if k != TermKind::Literal {
                    self.ctx.fail(format!("conv/GenericLiteral-accepts/{kn}"), format!("{label} {} converts to a GenericLiteral", actual.show()));
                }
                let o = conv_obs(&t, &gl);
                self.conv(label, "try_into_term::<GenericLiteral>", &actual, o);
            }
            Err(_) => {
                if k == TermKind::Literal {
                    self.ctx.fail(format!("conv/GenericLiteral-rejects/{kn}"), format!("{label} {} does not convert to a GenericLiteral", actual.show()));
                }
            }
        }
    }
}

// =====================================================================================
// generator
// =====================================================================================

fn iri_pool() -> Vec<String> {
    let mut v = gen::plain_iris();
    v.extend(gen::vocab_iris());
    v.extend(
        [
            "http://x/ns#", "http://x/ns", "http://x/ns#pq", "http://x/nsp#", "http://x/ns##p", "http://x/ns#p/", "http://x/", "http://x", "a", "b1", "x", "#p", "",
            "../r", "?q", "http://x/a#", "http://x/A", "HTTP://x/a", "http://x/a%20b", "http://x/%C3%A9", "http://x/é", "http://x/e\u{301}", "http://x/\u{10000}",
            "tag:a", "urn:x:", "urn:x:y:z", "http://www.w3.org/2001/XMLSchema#", "http://www.w3.org/2001/XMLSchema#integer2",
            "http://www.w3.org/1999/02/22-rdf-syntax-ns#langString",
        ]
        .iter()
        .map(|s| s.to_string()),
    );
    v
}
fn label_pool() -> Vec<String> {
    let mut v = gen::bnode_labels_plain();
    v.extend(gen::bnode_labels_exotic());
    v
}
fn var_pool() -> Vec<String> {
    // names valid both as VARNAME and (mostly) as blank node labels / lexical forms
    ["a", "b", "c0", "b1", "x", "y", "0", "_", "__", "a_", "\u{3b1}\u{3b2}", "a\u{b7}b", "e\u{301}", "\u{10000}x", "x\u{203f}y", "9"]
        .iter()
        .map(|s| s.to_string())
        .collect()
}
fn dt_pool() -> Vec<String> {
    let mut v = gen::datatypes();
    v.extend(["http://x/a", "http://x/ns#p", "http://x/dt2", "tag:t"].iter().map(|s| s.to_string()));
    v.push(xsd("int"));
    v
}
fn tag_pool() -> Vec<String> {
    let mut v = gen::tags();
    v.extend(["En", "eN", "en-Us", "EN-US", "FR", "fr-BE", "de", "x-PRIV", "a", "A", "en-us-x-a", "zh-Hant-TW"].iter().map(|s| s.to_string()));
    v
}
fn lex_strategy() -> BoxedStrategy<String> {
    prop_oneof![
        4 => pick_str(&["", "a", "b", "A", "42", "-1", "0", "007", "1.5", "1e5", "INF", "NaN", "true", "false", "en", "x", "b1", "http://x/a", "_:a", "a b", " a"]),
        3 => gen::lexical(6),
    ]
    .boxed()
}

fn atom(kind: u8) -> BoxedStrategy<MT> {
    match kind {
        0 => pick(iri_pool()).prop_map(MT::Iri).boxed(),
        1 => pick(label_pool()).prop_map(MT::Bnode).boxed(),
        2 => (lex_strategy(), pick(dt_pool())).prop_map(|(l, d)| MT::Lit(l, d)).boxed(),
        3 => (lex_strategy(), pick(tag_pool())).prop_map(|(l, t)| MT::Lang(l, t)).boxed(),
        _ => pick(var_pool()).prop_map(MT::Var).boxed(),
    }
}
/// literals that are the image of a native Rust value (so that i32/isize/usize/f64/bool/&str take part)
fn native_image() -> BoxedStrategy<MT> {
    prop_oneof![
        pick_str(&["0", "1", "-1", "42", "2147483647", "-2147483648", "2147483648", "9223372036854775807", "18446744073709551615", "-9223372036854775808"])
            .prop_map(|l| MT::lit(l, xsd("integer"))),
        pick_str(&["true", "false"]).prop_map(|l| MT::lit(l, xsd("boolean"))),
        pick_str(&["0", "-0", "1", "1.5", "-2.5", "0.1", "INF", "-INF", "NaN", "100000000000000000000", "0.000001", "42"]).prop_map(|l| MT::lit(l, xsd("double"))),
        lex_strategy().prop_map(MT::string),
    ]
    .boxed()
}
fn any_atom() -> BoxedStrategy<MT> {
    prop_oneof![3 => atom(0), 2 => atom(1), 3 => atom(2), 2 => native_image(), 3 => atom(3), 1 => atom(4)].boxed()
}
fn any_term(depth: u32) -> BoxedStrategy<MT> {
    if depth == 0 {
        return any_atom();
    }
    let sub = any_term(depth - 1);
    // strict-shaped triples (so that the strict parsers take part) and generalized ones
    let strict = (
        prop_oneof![2 => atom(0), 1 => atom(1), 1 => sub.clone()],
        atom(0),
        prop_oneof![2 => any_atom(), 1 => sub.clone()],
    )
        .prop_map(|(s, p, o)| MT::triple(s, p, o));
    let general = (sub.clone(), sub.clone(), sub).prop_map(|(s, p, o)| MT::triple(s, p, o));
    prop_oneof![8 => any_atom(), 2 => strict, 1 => general].boxed()
}

/// a term derived from `a` that is equal, nearly equal, or shares components
#[derive(Clone, Debug)]
enum Mutn {
    Same,
    FlipTagCase(u8),
    OtherTag(String),
    OtherLex(String),
    OtherName(String),
    OtherDt(String),
    ToLang(String),
    ToPlain,
    SwapKind(u8),
    IriTweak(u8),
    Component(u8, Box<Mutn>),
    Wrap(u8),
    Unwrap(u8),
    Fresh(MT),
    /// same left-to-right sequence of atoms, other nesting: << <<a b c>> p o >> <-> << a b <<c p o>> >>
    Rebracket,
}
fn flip_case(t: &str, how: u8) -> String {
    match how % 4 {
        0 => t.to_ascii_uppercase(),
        1 => t.to_ascii_lowercase(),
        2 => t
            .chars()
            .enumerate()
            .map(|(i, c)| if i % 2 == 0 { c.to_ascii_uppercase() } else { c.to_ascii_lowercase() })
            .collect(),
        _ => {
            let mut cs: Vec<char> = t.chars().collect();
            if let Some(c) = cs.last_mut() {
                *c = if c.is_ascii_uppercase() { c.to_ascii_lowercase() } else { c.to_ascii_uppercase() };
            }
            cs.into_iter().collect()
        }
    }
}
fn string_of(m: &MT) -> Option<&str> {
    match m {
        MT::Iri(s) | MT::Bnode(s) | MT::Var(s) | MT::Lit(s, _) | MT::Lang(s, _) => Some(s),
        MT::Triple(_) => None,
    }
}
fn apply(a: &MT, mu: &Mutn) -> MT {
    match (mu, a) {
        (Mutn::Same, _) => a.clone(),
        (Mutn::FlipTagCase(h), MT::Lang(l, t)) => MT::Lang(l.clone(), flip_case(t, *h)),
        (Mutn::OtherTag(t2), MT::Lang(l, _)) => MT::Lang(l.clone(), t2.clone()),
        (Mutn::OtherLex(l2), MT::Lang(_, t)) => MT::Lang(l2.clone(), t.clone()),
        (Mutn::OtherLex(l2), MT::Lit(_, d)) => MT::Lit(l2.clone(), d.clone()),
        (Mutn::OtherName(n), MT::Bnode(_)) if BnodeId::new(n.as_str()).is_ok() => MT::Bnode(n.clone()),
        (Mutn::OtherName(n), MT::Var(_)) if VarName::new(n.as_str()).is_ok() => MT::Var(n.clone()),
        (Mutn::OtherName(n), MT::Bnode(b)) | (Mutn::OtherName(n), MT::Var(b)) if n.is_empty() => {
            // prefix / extension of the same label
            if b.chars().count() > 1 {
                let mut c = b.clone();
                c.pop();
                if matches!(a, MT::Bnode(_)) && BnodeId::new(c.as_str()).is_ok() { MT::Bnode(c) } else if matches!(a, MT::Var(_)) && VarName::new(c.as_str()).is_ok() { MT::Var(c) } else { a.clone() }
            } else if matches!(a, MT::Bnode(_)) { MT::Bnode(format!("{b}0")) } else { MT::Var(format!("{b}0")) }
        }
        (Mutn::OtherDt(d2), MT::Lit(l, _)) | (Mutn::OtherDt(d2), MT::Lang(l, _)) => MT::Lit(l.clone(), d2.clone()),
        (Mutn::ToLang(t), MT::Lit(l, _)) => MT::Lang(l.clone(), t.clone()),
        (Mutn::ToPlain, MT::Lang(l, _)) | (Mutn::ToPlain, MT::Lit(l, _)) => MT::string(l.clone()),
        (Mutn::SwapKind(k), x) => {
            // same string, other kind (when the string is valid there)
            let Some(s) = string_of(x) else { return x.clone() };
            match k % 5 {
                0 if IriRef::new(s).is_ok() => MT::Iri(s.to_string()),
                1 if BnodeId::new(s).is_ok() => MT::Bnode(s.to_string()),
                2 => MT::string(s.to_string()),
                3 if VarName::new(s).is_ok() => MT::Var(s.to_string()),
                4 if IriRef::new(s).is_ok() => MT::Lit("a".into(), s.to_string()),
                _ => x.clone(),
            }
        }
        (Mutn::IriTweak(k), MT::Iri(i)) => {
            let cand = match k % 6 {
                0 => format!("{i}x"),
                1 => {
                    let mut s = i.clone();
                    s.pop();
                    s
                }
                2 => format!("{i}#"),
                3 => format!("{i}/"),
                4 => i.replacen('#', "/", 1),
                _ => {
                    // swap the two characters around the last '#' or '/'
                    let mut cs: Vec<char> = i.chars().collect();
                    if let Some(p) = cs.iter().rposition(|c| *c == '#' || *c == '/') {
                        if p + 1 < cs.len() {
                            cs.swap(p, p + 1);
                        }
                    }
                    cs.into_iter().collect()
                }
            };
            if IriRef::new(cand.as_str()).is_ok() {
                MT::Iri(cand)
            } else {
                a.clone()
            }
        }
        (Mutn::Component(i, inner), MT::Triple(t)) => {
            let mut t2 = t.clone();
            let i = (*i % 3) as usize;
            t2[i] = apply(&t[i], inner);
            MT::Triple(t2)
        }
        (Mutn::Wrap(pos), x) => {
            let p = MT::iri("http://x/p");
            match pos % 3 {
                0 => MT::triple(x.clone(), p, MT::iri("http://x/a")),
                1 => MT::triple(MT::iri("http://x/a"), p, x.clone()),
                _ => MT::triple(x.clone(), p, x.clone()),
            }
        }
        (Mutn::Unwrap(i), MT::Triple(t)) => t[(*i % 3) as usize].clone(),
        (Mutn::Rebracket, MT::Triple(t)) => match (&t[0], &t[2]) {
            (MT::Triple(i), _) => MT::triple(i[0].clone(), i[1].clone(), MT::triple(i[2].clone(), t[1].clone(), t[2].clone())),
            (_, MT::Triple(i)) => MT::triple(MT::triple(t[0].clone(), t[1].clone(), i[0].clone()), i[1].clone(), i[2].clone()),
            // a flat triple: nest it first (the partner is then the other bracketing of the same five atoms)
            _ => MT::triple(MT::triple(t[0].clone(), t[1].clone(), t[2].clone()), t[1].clone(), t[2].clone()),
        },
        (Mutn::Fresh(m), _) => m.clone(),
        // mutation not applicable to this kind: keep the term (an equal pair)
        (_, x) => x.clone(),
    }
}
/// the first mutation of the list that really produces another representation; else the term itself
fn apply_first(a: &MT, ms: &[Mutn]) -> MT {
    for m in ms {
        if matches!(m, Mutn::Same) {
            return a.clone();
        }
        let b = apply(a, m);
        if !b.same_repr(a) {
            return b;
        }
    }
    a.clone()
}
fn mutn(depth: u32) -> BoxedStrategy<Mutn> {
    let leaf = prop_oneof![
        1 => Just(Mutn::Same),
        3 => any::<u8>().prop_map(Mutn::FlipTagCase),
        2 => pick(tag_pool()).prop_map(Mutn::OtherTag),
        2 => lex_strategy().prop_map(Mutn::OtherLex),
        2 => pick(dt_pool()).prop_map(Mutn::OtherDt),
        3 => prop_oneof![pick(label_pool()), pick(var_pool()), Just(String::new())].prop_map(Mutn::OtherName),
        1 => pick(tag_pool()).prop_map(Mutn::ToLang),
        1 => Just(Mutn::ToPlain),
        3 => any::<u8>().prop_map(Mutn::SwapKind),
        3 => any::<u8>().prop_map(Mutn::IriTweak),
        1 => any::<u8>().prop_map(Mutn::Wrap),
        1 => any::<u8>().prop_map(Mutn::Unwrap),
        2 => any_term(1).prop_map(Mutn::Fresh),
        2 => Just(Mutn::Rebracket),
    ];
    if depth == 0 {
        leaf.boxed()
    } else {
        prop_oneof![5 => leaf, 2 => (any::<u8>(), mutn(depth - 1)).prop_map(|(i, m)| Mutn::Component(i, Box::new(m)))].boxed()
    }
}

fn valid_term(m: &MT) -> bool {
    match m {
        MT::Iri(i) => IriRef::new(i.as_str()).is_ok(),
        MT::Bnode(b) => BnodeId::new(b.as_str()).is_ok(),
        MT::Var(v) => VarName::new(v.as_str()).is_ok(),
        MT::Lit(_, d) => IriRef::new(d.as_str()).is_ok() && d != RDF_LANGSTRING,
        MT::Lang(_, t) => LanguageTag::new(t.as_str()).is_ok(),
        MT::Triple(t) => t.iter().all(valid_term),
    }
}

fn fixed() -> Vec<Case> {
    let en = MT::lang("a", "en");
    let en_up = MT::lang("a", "EN");
    let tr = |s: MT, p: MT, o: MT| MT::triple(s, p, o);
    let p = MT::iri("http://x/p");
    let mut v = vec![
        Case { a: en.clone(), b: en_up.clone(), c: MT::lang("a", "En") },
        Case { a: MT::lang("a", "en-US"), b: MT::lang("a", "en-us"), c: MT::lang("a", "en") },
        Case { a: MT::string("a"), b: en.clone(), c: MT::lit("a", RDF_LANGSTRING.replace("langString", "PlainLiteral")) },
        Case { a: MT::iri("http://x/ns#p"), b: MT::iri("http://x/ns#pq"), c: MT::iri("http://x/ns#") },
        Case { a: MT::iri("a"), b: MT::bn("a"), c: MT::var("a") },
        Case { a: MT::string("a"), b: MT::lit("a", "http://x/a"), c: MT::iri("http://x/a") },
        Case { a: MT::lit("42", xsd("integer")), b: MT::lit("42", xsd("int")), c: MT::lit("042", xsd("integer")) },
        Case { a: MT::lit("true", xsd("boolean")), b: MT::lit("1", xsd("boolean")), c: MT::string("true") },
        Case { a: MT::lit("1.5", xsd("double")), b: MT::lit("1.5", xsd("decimal")), c: MT::lit("1.50", xsd("double")) },
        Case { a: MT::lit("INF", xsd("double")), b: MT::lit("inf", xsd("double")), c: MT::lit("NaN", xsd("double")) },
        Case { a: tr(MT::bn("a"), p.clone(), en.clone()), b: tr(MT::bn("a"), p.clone(), en_up.clone()), c: tr(MT::bn("a"), p.clone(), MT::string("a")) },
        Case {
            a: tr(tr(MT::iri("http://x/a"), p.clone(), en.clone()), p.clone(), MT::bn("b")),
            b: tr(tr(MT::iri("http://x/a"), p.clone(), en_up.clone()), p.clone(), MT::bn("b")),
            c: tr(MT::iri("http://x/a"), p.clone(), MT::bn("b")),
        },
        Case { a: MT::var("x"), b: tr(MT::var("x"), MT::var("x"), MT::var("x")), c: MT::bn("x") },
        // the same five atoms under the three possible nestings
        Case {
            a: tr(tr(MT::iri("http://x/a"), p.clone(), MT::iri("http://x/c")), p.clone(), MT::bn("b")),
            b: tr(MT::iri("http://x/a"), p.clone(), tr(MT::iri("http://x/c"), p.clone(), MT::bn("b"))),
            c: tr(tr(MT::iri("http://x/a"), p.clone(), MT::iri("http://x/c")), p.clone(), tr(MT::iri("http://x/c"), p.clone(), MT::bn("b"))),
        },
        Case { a: MT::iri(rdf("type")), b: MT::iri(xsd("string")), c: MT::string(xsd("string")) },
        Case { a: MT::bn("b1"), b: MT::bn("b10"), c: MT::bn("b2") },
        Case { a: MT::string(""), b: MT::lang("", "en"), c: MT::lit("", xsd("integer")) },
    ];
    // every rank against every rank
    let reps = [MT::bn("a"), MT::iri("a"), MT::string("a"), en.clone(), tr(MT::iri("a"), MT::iri("a"), MT::iri("a")), MT::var("a")];
    for x in &reps {
        for y in &reps {
            v.push(Case { a: x.clone(), b: y.clone(), c: tr(x.clone(), p.clone(), y.clone()) });
        }
    }
    v
}

impl Check for C02 {
    type Case = Case;
    const ID: &'static str = "C02";
    fn rule() -> String {
        "triples (a,b,c) of model terms where b and c are derived from a by near-miss mutations (same / language-tag case / other tag, lexical form, datatype / same string as another kind / IRI edited around its namespace split / one component of a quoted triple / wrapped / unwrapped / fresh). Each term is realised in every shipped Term implementation that can hold it (~30-45 per term incl. every valid NsTerm split, rio Trusted<> terms built directly and obtained inside the N-Quads / generalized N-Quads parser callbacks, JSON-LD RdfTerm, c14n relabelled terms, stash copies, ResultTerm, native values); for every ordered pair of realisations of (a,b), (b,c), (a,c), (a,a): Term::eq, Term::cmp (both directions), Term::hash digests, `==`, `partial_cmp` and std Hash are compared with the model (equality and order written from the documentation). Every realisation is also pushed through 14 conversion paths. Non-trivial = a case in which at least one of the three pairs is equal-but-not-identical (tag case) or unequal while sharing kind; distinct by hash of the case.".into()
    }
    fn assumptions() -> Vec<String> {
        vec![
            "the intra-kind order is the documented one: IRIs/blank nodes/variables by value (code point order), literals by datatype, then language tag (ASCII case-insensitively), then lexical form, triples lexicographically".into(),
            "parser-backed, JSON-LD and c14n realisations are judged against the term their own accessors expose (whether parsing preserves the term is C03/C12's business)".into(),
            "IsoTerm (sophia_isomorphism) is not reachable through the public API and is not exercised; C14nTerm is reached through rdfc10::relabel and only for non-triple, non-variable terms; its triple()/constituents() are not called (unimplemented!() upstream)".into(),
            "std Hash of the wrapper types IriRef/Iri/BnodeId/VarName (derived from the inner string) is not compared with Term::hash".into(),
            "blank node labels starting with `riog` are not generated".into(),
        ]
    }
    fn cases(tier: Tier) -> u32 {
        tier.pick(12_000, 400_000)
    }
    fn fixed_cases(_tier: Tier, _seed: u64) -> Vec<Case> {
        fixed()
    }
    fn strategy(_tier: Tier) -> BoxedStrategy<Case> {
        (any_term(2), proptest::collection::vec(mutn(2), 4), proptest::collection::vec(mutn(2), 4), any::<bool>())
            .prop_map(|(a, m1, m2, from_b)| {
                let b = apply_first(&a, &m1);
                let c = if from_b { apply_first(&b, &m2) } else { apply_first(&a, &m2) };
                Case { a, b, c }
            })
            .prop_filter("well-formed terms only", |c| valid_term(&c.a) && valid_term(&c.b) && valid_term(&c.c) && c.a.depth() <= 3 && c.b.depth() <= 3 && c.c.depth() <= 3)
            .boxed()
    }
    fn run(case: &Case, ctx: &mut Ctx) {
        if !(valid_term(&case.a) && valid_term(&case.b) && valid_term(&case.c)) {
            ctx.class("skipped:ill-formed-term");
            return;
        }
        let terms = [&case.a, &case.b, &case.c];
        let owned: Vec<Owned> = terms.iter().map(|m| Owned::new(m)).collect();
        // unary: every realisation reads back / converts correctly
        let mut realisations = 0;
        for (m, o) in terms.iter().zip(&owned) {
            let mut u = Unary { ctx: &mut *ctx, intended: m, count: 0 };
            o.visit_light(&mut u);
            let mut skipped = vec![];
            o.visit_heavy(&mut u, &mut skipped);
            realisations += u.count;
            for s in skipped {
                ctx.class(format!("not-parsed:{s}"));
            }
        }
        ctx.count("realisations", realisations);
        if ctx.failed() {
            return;
        }
        // pairs
        let mut pairs = 0;
        let mut interesting = false;
        for (i, j) in [(0, 1), (1, 2), (0, 2), (0, 0)] {
            let (ma, mb) = (terms[i], terms[j]);
            let rel = relation(ma, mb);
            if i != j {
                ctx.class(format!("rel:{rel}"));
                if (ma == mb && !ma.same_repr(mb)) || (ma != mb && ma.rank() == mb.rank()) {
                    interesting = true;
                }
            }
            let mut outer = Outer { ctx: &mut *ctx, ma_intended: ma, b: &owned[j], pairs: 0 };
            owned[i].visit_light(&mut outer);
            let mut sk = vec![];
            owned[i].visit_heavy(&mut outer, &mut sk);
            pairs += outer.pairs;
            if ctx.failed() {
                return;
            }
        }
        ctx.count("ordered-pairs-of-realisations", pairs);
        if interesting {
            ctx.nontrivial();
        }
        laws_on_concrete_types(ctx, &owned);
    }
    fn show(case: &Case) -> serde_json::Value {
        serde_json::json!({"a": case.a.show(), "b": case.b.show(), "c": case.c.show()})
    }
}

/// transitivity / antisymmetry on concrete types, std collections, same-type operator impls
fn laws_on_concrete_types(ctx: &mut Ctx, o: &[Owned]) {
    let ms: Vec<&MT> = o.iter().map(|x| &x.m).collect();
    // a through SimpleTerm, b through ArcTerm, c through RcTerm (and rotations)
    let le = |x: Ordering| x != Ordering::Greater;
    for r in 0..3 {
        let (a, b, c) = (&o[r], &o[(r + 1) % 3], &o[(r + 2) % 3]);
        let ab = Term::cmp(&a.st, &b.arc);
        let bc = Term::cmp(&b.arc, &c.rc);
        let ac = Term::cmp(&a.st, &c.rc);
        if le(ab) && le(bc) && !le(ac) {
            ctx.fail("law/cmp-transitive", format!("{} <= {} <= {} but cmp(a,c) = {ac:?}", a.m.show(), b.m.show(), c.m.show()));
        }
        if ab == Ordering::Equal && bc == Ordering::Equal && ac != Ordering::Equal {
            ctx.fail("law/cmp-transitive", format!("{} == {} == {} but cmp(a,c) = {ac:?}", a.m.show(), b.m.show(), c.m.show()));
        }
        let (eab, ebc, eac) = (Term::eq(&a.st, &b.arc), Term::eq(&b.arc, &c.rc), Term::eq(&a.st, &c.rc));
        if eab && ebc && !eac {
            ctx.fail("law/eq-transitive", format!("{} = {} = {} but a != c", a.m.show(), b.m.show(), c.m.show()));
        }
        if (ab == Ordering::Equal) != eab {
            ctx.fail("law/cmp-equal-iff-eq", format!("{} vs {}: cmp {ab:?}, eq {eab}", a.m.show(), b.m.show()));
        }
        if Term::cmp(&b.arc, &a.st) != ab.reverse() {
            ctx.fail("law/cmp-antisymmetric", format!("{} vs {}", a.m.show(), b.m.show()));
        }
    }
    // std collections keyed by terms behave like the model set
    let model: BTreeSet<MT> = ms.iter().map(|m| (*m).clone()).collect();
    let s1: BTreeSet<SimpleTerm<'static>> = o.iter().map(|x| x.st.clone()).collect();
    let s2: BTreeSet<ArcTerm> = o.iter().map(|x| x.arc.clone()).collect();
    let s3: HashSet<RcTerm> = o.iter().map(|x| x.rc.clone()).collect();
    let s4: HashSet<SimpleTerm<'static>> = o.iter().map(|x| x.st.clone()).collect();
    let s5: BTreeSet<CmpTerm<ArcTerm>> = o.iter().map(|x| CmpTerm(x.arc.clone())).collect();
    let s6: HashSet<CmpTerm<&RcTerm>> = o.iter().map(|x| CmpTerm(&x.rc)).collect();
    let s7: BTreeSet<ResultTerm> = o.iter().map(|x| x.res.clone()).collect();
    let s8: HashSet<ResultTerm> = o.iter().map(|x| x.res.clone()).collect();
    for (name, n) in [
        ("BTreeSet<SimpleTerm>", s1.len()),
        ("BTreeSet<ArcTerm>", s2.len()),
        ("HashSet<RcTerm>", s3.len()),
        ("HashSet<SimpleTerm>", s4.len()),
        ("BTreeSet<CmpTerm<ArcTerm>>", s5.len()),
        ("HashSet<CmpTerm<&RcTerm>>", s6.len()),
        ("BTreeSet<ResultTerm>", s7.len()),
        ("HashSet<ResultTerm>", s8.len()),
    ] {
        if n != model.len() {
            ctx.fail(
                format!("collections/{name}"),
                format!("{name} of [{}] has {n} members, the model set has {}", ms.iter().map(|m| m.show()).collect::<Vec<_>>().join(", "), model.len()),
            );
        }
    }
    let order_ok = |got: Vec<MT>| got.len() == model.len() && got.iter().zip(model.iter()).all(|(x, y)| x == y);
    if !order_ok(s1.iter().map(MT::from_term).collect())
        || !order_ok(s2.iter().map(MT::from_term).collect())
        || !order_ok(s5.iter().map(|t| MT::from_term(t.borrow_term())).collect())
        || !order_ok(s7.iter().map(|t| MT::from_term(t.borrow_term())).collect())
    {
        ctx.fail("collections/order", format!("iteration order of a BTreeSet of terms differs from the documented order for [{}]", ms.iter().map(|m| m.show()).collect::<Vec<_>>().join(", ")));
    }
    // membership through the Term-generic lookups used by the rest of the toolkit
    for x in o {
        if !s4.contains(&x.st) || !s3.contains(&x.rc) || !s8.contains(&x.res) {
            ctx.fail("collections/lookup", format!("{} not found in a HashSet containing it", x.m.show()));
        }
    }
    // same-type operator impls: Ord / Eq / Hash on pairs
    for i in 0..3 {
        for j in 0..3 {
            let (a, b) = (&o[i], &o[j]);
            let exp = a.m.cmp(&b.m);
            let mut chk = |name: &str, got: Ordering, eq: bool, ha: u64, hb: u64| {
                if got != exp || eq != (exp == Ordering::Equal) || (exp == Ordering::Equal && ha != hb) {
                    ctx.fail(
                        format!("same-type-ops/{name}/{}", relation(&a.m, &b.m)),
                        format!("{name}: {} vs {}: Ord::cmp {got:?} (expected {exp:?}), == {eq}, hashes {ha:#x} {hb:#x}", a.m.show(), b.m.show()),
                    );
                }
            };
            chk("SimpleTerm", Ord::cmp(&a.st, &b.st), a.st == b.st, std_digest(&a.st), std_digest(&b.st));
            chk("ArcTerm", Ord::cmp(&a.arc, &b.arc), a.arc == b.arc, std_digest(&a.arc), std_digest(&b.arc));
            chk("RcTerm", Ord::cmp(&a.rc, &b.rc), a.rc == b.rc, std_digest(&a.rc), std_digest(&b.rc));
            chk("CmpTerm<SimpleTerm>", Ord::cmp(&a.cmp_st, &b.cmp_st), a.cmp_st == b.cmp_st, std_digest(&a.cmp_st), std_digest(&b.cmp_st));
            chk("ResultTerm", Ord::cmp(&a.res, &b.res), a.res == b.res, std_digest(&a.res), std_digest(&b.res));
            chk("ResultTerm(value cached)", Ord::cmp(&a.res_warm, &b.res_warm), a.res_warm == b.res_warm, std_digest(&a.res_warm), std_digest(&b.res_warm));
            if let (Some(x), Some(y)) = (&a.gl_arc, &b.gl_arc) {
                chk("GenericLiteral<Arc<str>>", Ord::cmp(x, y), x == y, std_digest(x), std_digest(y));
            }
            if let (Some(x), Some(y)) = (&a.gl_string, &b.gl_string) {
                chk("GenericLiteral<String>", Ord::cmp(x, y), x == y, std_digest(x), std_digest(y));
            }
            if let (Some(x), Some(y)) = (&a.iri_string, &b.iri_string) {
                chk("IriRef<String>", Ord::cmp(x, y), x == y, std_digest(x), std_digest(y));
                let (xa, ya) = (a.iri_arc.as_ref().unwrap(), b.iri_arc.as_ref().unwrap());
                chk("IriRef<Arc<str>>", Ord::cmp(xa, ya), xa == ya, std_digest(xa), std_digest(ya));
            }
            if let (Some(x), Some(y)) = (&a.bn_string, &b.bn_string) {
                chk("BnodeId<String>", Ord::cmp(x, y), x == y, std_digest(x), std_digest(y));
            }
            if let (Some(x), Some(y)) = (&a.var_string, &b.var_string) {
                chk("VarName<String>", Ord::cmp(x, y), x == y, std_digest(x), std_digest(y));
            }
            if let (MT::Lang(_, t1), MT::Lang(_, t2)) = (&a.m, &b.m) {
                let (x, y) = (LanguageTag::new_unchecked(t1.as_str()), LanguageTag::new_unchecked(t2.as_str()));
                let e = Ord::cmp(&t1.to_ascii_lowercase(), &t2.to_ascii_lowercase());
                if Ord::cmp(&x, &y) != e || (x == y) != (e == Ordering::Equal) || (e == Ordering::Equal && std_digest(&x) != std_digest(&y)) {
                    ctx.fail("same-type-ops/LanguageTag", format!("{t1} vs {t2}: cmp {:?} eq {}", Ord::cmp(&x, &y), x == y));
                }
            }
        }
    }
}

pub fn main(opts: &Opts) -> i32 {
    drive::<C02>(opts)
}
pub fn worker(_args: &[String]) -> i32 {
    2
}
