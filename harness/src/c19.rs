//! C19 — the local resource loader never reads outside its configured directories.
//!
//! A sandbox tree (one per worker thread, under one `tempfile` directory per process) holds
//! the same set of marker files in every directory: inside the directories that get
//! configured as roots, in siblings, in the parent and "elsewhere". Every file has a
//! unique content (`MARK:<relative path>`), so the bytes returned by `LocalLoader::get`
//! identify the file that was opened. Oracle (from the statement): `Ok(bytes)` ⇒ `bytes`
//! is the content of a file located inside the directory mapped to a configured
//! namespace that prefixes the IRI. IRIs come from the caller (direct `get`) and from
//! links in N-Triples / Turtle / JSON-LD documents followed through `Resource`; every
//! `get` performed on behalf of `Resource` is observed through a spying `Loader` wrapper.
use crate::engine::*;
use proptest::prelude::*;
use serde::{Deserialize, Serialize};
use serde_json::{json, Value};
use sophia_api::graph::Graph;
use sophia_api::term::Term;
use sophia_api::triple::Triple;
use sophia_api::MownStr;
use sophia_inmem::graph::LightGraph;
use sophia_iri::Iri;
use sophia_resource::{Loader, LoaderError, LocalLoader, Resource};
use std::borrow::Borrow;
use std::cell::RefCell;
use std::collections::BTreeMap;
use std::path::{Path, PathBuf};
use std::sync::atomic::{AtomicUsize, Ordering};
use std::sync::{Arc, Mutex};

// ------------------------------------------------------------------ the sandbox

/// directories of the sandbox (relative to its base); the same files exist in each
const DIRS: &[&str] = &[
    "",
    "pub",
    "pub/sub",
    "pub/sub/deep",
    "pub/inner",
    "pub2",
    "pub2/sub",
    "pub2/inner",
    "pub-evil",
    "outside",
    "pub/%2e%2e",
    "pub/%2f",
    // reachable only if a namespace is matched without its final '/' (http://ex/nsx/ -> ns + "x/")
    "pub/x",
    "pub2/x",
];
/// files present in every directory (`f`, `g`, `h`, `i` exist only with an extension:
/// content-negotiation emulation)
const FILES: &[&str] = &[
    "a.ttl", "a", "b.nt", "c.jsonld", "d.rdf", "f.ttl", "g.nt", "h.jsonld", "i.rdf", "secret.ttl", "x.y.ttl", ".hidden",
];

/// configurable (namespace, directory) pairs; a case picks 1..=3 of them, in order
const CACHE_POOL: &[(&str, &str)] = &[
    ("http://ex/ns/", "pub"),
    ("http://ex/ns/inner/", "pub/inner"),
    ("http://ex/ns/sub/", "pub2"),
    ("http://ex/other/", "pub2"),
    ("http://ex/", "pub/sub"),
    ("http://ex/ns/", "pub2"),
    ("http://ex/ns/sub/", "pub/sub/deep"),
];

/// namespaces used by the free-form IRI generator (configured or not)
const NS_POOL: &[&str] = &[
    "http://ex/ns/",
    "http://ex/ns/inner/",
    "http://ex/ns/sub/",
    "http://ex/other/",
    "http://ex/",
    "http://ex/ns",
    "http://ex/nsx/",
    "http://other.example/",
    "http://ex/ns/../",
    "http://ex//",
    // look-alikes of configured namespaces that do NOT have them as a prefix: a loader that
    // matches namespaces loosely (scheme-insensitively, case-insensitively, ignoring a port or
    // userinfo) serves files for IRIs outside every configured namespace
    "https://ex/ns/",
    "https://ex/",
    "HTTP://ex/ns/",
    "http://EX/ns/",
    "http://ex:80/ns/",
    "http://u@ex/ns/",
    "http://ex/NS/",
    "ttp://ex/ns/",
];

/// path segments for the free-form generator; `{T}` expands to the absolute path of
/// the sandbox (without its leading '/'), `{L}` to a 300-character segment (> NAME_MAX),
/// `{P}` to 2500 one-letter segments (> PATH_MAX)
const SEG_POOL: &[&str] = &[
    "a.ttl", "..", "", ".", "sub", "secret.ttl", "{T}", "a", "f", "pub", "outside", "%2e%2e", "inner", "deep", "pub2",
    "pub-evil", "b.nt", "g", "c.jsonld", "h", "d.rdf", "i", "x.y.ttl", ".hidden", "%2E%2E", ".%2e", "%2e.", "%2f", "..%2f",
    "%2e%2e%2f", "..%2f..", "%5c", "..%5c", "..%5c..", "...", "..ttl", "..;", "%00", "..%00", "etc", "hostname", "passwd",
    "{L}", "a.ttl%23", "%2e", "%2e%2e%2fsecret.ttl", "tmp", "{P}",
];

const TAILS: &[&str] = &["", "#frag", "#../../secret.ttl", "?q=1", "#", ".ttl", "/"];

fn marker(rel: &str) -> String {
    format!("MARK:{rel}")
}

fn file_content(rel: &str) -> Vec<u8> {
    let m = marker(rel);
    let s = if rel.ends_with(".ttl") {
        format!("<> <http://ex/marker> \"{m}\" .\n")
    } else if rel.ends_with(".nt") {
        format!("<http://ex/f> <http://ex/marker> \"{m}\" .\n")
    } else if rel.ends_with(".jsonld") {
        // usable both as a document and as a remote context
        format!("{{\"@context\":{{\"e\":\"http://ex/\"}},\"@id\":\"http://ex/f\",\"e:marker\":\"{m}\"}}\n")
    } else if rel.ends_with(".rdf") {
        format!(
            "<?xml version=\"1.0\"?>\n<rdf:RDF xmlns:rdf=\"http://www.w3.org/1999/02/22-rdf-syntax-ns#\" xmlns:e=\"http://ex/\"><rdf:Description rdf:about=\"http://ex/f\"><e:marker>{m}</e:marker></rdf:Description></rdf:RDF>\n"
        )
    } else {
        format!("{m}\n")
    };
    s.into_bytes()
}

struct Sandbox {
    /// canonical absolute path of the sandbox
    base: PathBuf,
    /// content -> relative path (every file of the fixed tree)
    by_content: BTreeMap<Vec<u8>, String>,
}

static PROCESS_ROOT: Mutex<Option<tempfile::TempDir>> = Mutex::new(None);
static NEXT_BOX: AtomicUsize = AtomicUsize::new(0);

thread_local! {
    static SANDBOX: RefCell<Option<Arc<Sandbox>>> = const { RefCell::new(None) };
}

impl Sandbox {
    fn build() -> Sandbox {
        let parent: PathBuf = {
            let mut g = PROCESS_ROOT.lock().unwrap_or_else(|e| e.into_inner());
            if g.is_none() {
                *g = Some(
                    tempfile::Builder::new()
                        .prefix("vcheck-c19-")
                        .tempdir()
                        .expect("cannot create the sandbox parent directory"),
                );
            }
            g.as_ref().unwrap().path().to_path_buf()
        };
        let n = NEXT_BOX.fetch_add(1, Ordering::SeqCst);
        let base = parent.join(format!("box{n}"));
        std::fs::create_dir_all(&base).expect("sandbox dir");
        let base = base.canonicalize().expect("canonicalize sandbox");
        let mut by_content = BTreeMap::new();
        for d in DIRS {
            let dir = if d.is_empty() { base.clone() } else { base.join(d) };
            std::fs::create_dir_all(&dir).expect("sandbox subdir");
            for f in FILES {
                let rel = if d.is_empty() { f.to_string() } else { format!("{d}/{f}") };
                let c = file_content(&rel);
                std::fs::write(base.join(&rel), &c).expect("sandbox file");
                let prev = by_content.insert(c, rel);
                assert!(prev.is_none(), "marker contents must be unique");
            }
        }
        // next to every directory, files named after it (`pub/sub.ttl` beside `pub/sub/`): a loader
        // that derives alternative file names from the *directory* path (e.g. with_extension on an
        // empty remainder) reads them, although they lie outside the directory mapped to the namespace
        for d in DIRS {
            if d.is_empty() {
                continue;
            }
            for ext in ["ttl", "nt", "jsonld", "rdf"] {
                let rel = format!("{d}.{ext}");
                let c = file_content(&rel);
                std::fs::write(base.join(&rel), &c).expect("sandbox sibling file");
                let prev = by_content.insert(c, rel);
                assert!(prev.is_none(), "marker contents must be unique");
            }
        }
        Sandbox { base, by_content }
    }
    fn get() -> Arc<Sandbox> {
        SANDBOX.with(|s| {
            let mut s = s.borrow_mut();
            if s.is_none() {
                *s = Some(Arc::new(Sandbox::build()));
            }
            s.as_ref().unwrap().clone()
        })
    }
    /// `{T}`: absolute path without the leading '/'
    fn t(&self) -> String {
        self.base.to_str().expect("utf-8 tempdir").trim_start_matches('/').to_string()
    }
}

fn drop_process_root() {
    let mut g = PROCESS_ROOT.lock().unwrap_or_else(|e| e.into_inner());
    *g = None; // TempDir::drop removes the tree
}

// ------------------------------------------------------------------ cases

#[derive(Clone, Debug, Serialize, Deserialize)]
pub enum IriSpec {
    /// namespace (index in NS_POOL) + segments (indices in SEG_POOL) + tail
    Raw { ns: u8, segs: Vec<u8>, tail: u8 },
    /// an IRI under the namespace of the configured cache `slot`, aimed at the existing
    /// file DIRS[dir]/FILES[file], written in a given style
    Target { slot: u8, dir: u8, file: u8, style: u8, tail: u8, strip_ext: bool },
    /// literal text (`{T}` = absolute sandbox path without leading '/'); for reproducers
    Lit(String),
}

#[derive(Clone, Debug, Serialize, Deserialize)]
pub struct Case {
    /// indices in CACHE_POOL, in configuration order
    pub caches: Vec<u8>,
    /// IRIs passed to `get` directly
    pub direct: Vec<IriSpec>,
    /// IRIs written into a document inside the first root and followed through `Resource`
    pub links: Vec<IriSpec>,
    /// 0 = N-Triples, 1 = Turtle, 2 = JSON-LD, 3 = JSON-LD whose @context is the first link
    pub link_fmt: u8,
}

const STYLES: &[&str] = &[
    "plain", "dotdot", "absolute", "detour", "encoded", "over-ascend", "dot-prefixed", "encoded-slash", "system-absolute", "system-ascend",
];

fn comps(rel: &str) -> Vec<&str> {
    rel.split('/').filter(|s| !s.is_empty()).collect()
}

fn strip_ext(name: &str) -> &str {
    match name.rfind('.') {
        Some(0) | None => name,
        Some(i) => &name[..i],
    }
}

fn render(spec: &IriSpec, caches: &[(String, String)], t: &str) -> String {
    match spec {
        IriSpec::Lit(s) => s.replace("{T}", t),
        IriSpec::Raw { ns, segs, tail } => {
            let ns = NS_POOL[*ns as usize % NS_POOL.len()];
            let long = "a".repeat(300);
            let deep = format!("{}a", "a/".repeat(2499));
            let segs: Vec<String> = segs
                .iter()
                .map(|i| SEG_POOL[*i as usize % SEG_POOL.len()].replace("{T}", t).replace("{L}", &long).replace("{P}", &deep))
                .collect();
            let sep = if ns.ends_with('/') { "" } else { "/" };
            format!("{ns}{sep}{}{}", segs.join("/"), TAILS[*tail as usize % TAILS.len()])
        }
        IriSpec::Target { slot, dir, file, style, tail, strip_ext: se } => {
            let (ns, start) = &caches[*slot as usize % caches.len()];
            let start = comps(start);
            let d = DIRS[*dir as usize % DIRS.len()];
            let mut fname = FILES[*file as usize % FILES.len()];
            if *se {
                fname = strip_ext(fname);
            }
            let mut target = comps(d);
            target.push(fname);
            let common = start.iter().zip(target.iter()).take_while(|(a, b)| a == b).count();
            let ups = start.len() - common;
            let rest = target[common..].join("/");
            let abs = format!("/{t}/{}", target.join("/"));
            let style = STYLES[*style as usize % STYLES.len()];
            let path = match style {
                "plain" | "dotdot" => format!("{}{rest}", "../".repeat(ups)),
                "absolute" => abs,
                "detour" => format!("sub/../{}inner/../{rest}", "../".repeat(ups)),
                "encoded" => format!("{}{rest}", "%2e%2e/".repeat(ups)),
                "over-ascend" => format!("{}{}", "../".repeat(start.len() + comps(t).len() + 3), &abs[1..]),
                "dot-prefixed" => format!("./{}{rest}", "../".repeat(ups)),
                // a file that exists on any Linux system, outside the sandbox
                "system-absolute" => "/etc/passwd".to_string(),
                "system-ascend" => format!("{}etc/passwd", "../".repeat(start.len() + comps(t).len() + (*dir as usize % 3))),
                _ => format!("{}{rest}", "..%2f".repeat(ups)),
            };
            format!("{ns}{path}{}", TAILS[*tail as usize % TAILS.len()])
        }
    }
}

// ------------------------------------------------------------------ spying loader

struct Spy {
    inner: LocalLoader,
    log: Mutex<Vec<(String, Result<Vec<u8>, String>)>>,
}
impl Loader for Spy {
    fn get<T: Borrow<str>>(&self, iri: Iri<T>) -> Result<(Vec<u8>, String), LoaderError> {
        let r = self.inner.get(iri.as_ref());
        let entry = match &r {
            Ok((bytes, _)) => Ok(bytes.clone()),
            Err(e) => Err(err_kind(e).to_string()),
        };
        self.log
            .lock()
            .unwrap_or_else(|e| e.into_inner())
            .push((iri.as_str().to_string(), entry));
        r
    }
}

fn err_kind(e: &LoaderError) -> &'static str {
    match e {
        LoaderError::UnsupportedIri(..) => "unsupported",
        LoaderError::NotFound(..) => "notfound",
        LoaderError::IoError(..) => "io",
        LoaderError::CantGuessSyntax(..) => "cant-guess-syntax",
        LoaderError::ParseError(..) => "parse",
    }
}

// ------------------------------------------------------------------ oracle

struct World<'a> {
    sb: &'a Sandbox,
    /// configured (namespace, absolute directory), in order
    caches: Vec<(String, PathBuf)>,
    /// per-case documents written inside the first root: content -> absolute path
    dynamic: BTreeMap<Vec<u8>, PathBuf>,
}

/// path of the IRI (after scheme and authority), fragment removed
fn iri_path(iri: &str) -> &str {
    let no_frag = iri.split('#').next().unwrap();
    let after_scheme = no_frag.find("://").map(|i| &no_frag[i + 3..]).unwrap_or(no_frag);
    after_scheme.find('/').map(|i| &after_scheme[i..]).unwrap_or("")
}

/// stable key describing the trigger present in the IRI
fn trigger(iri: &str) -> &'static str {
    let p = iri_path(iri);
    let segs: Vec<&str> = p.split('/').skip(1).collect();
    if segs.iter().any(|s| *s == "..") {
        "dotdot-segment"
    } else if segs.len() > 1 && segs[..segs.len() - 1].iter().any(|s| s.is_empty()) {
        "empty-segment"
    } else if p.contains('%') {
        "percent-encoded"
    } else if segs.iter().any(|s| *s == ".") {
        "dot-segment"
    } else {
        "plain"
    }
}

impl World<'_> {
    fn configured_prefix(&self, iri: &str) -> bool {
        self.caches.iter().any(|(ns, _)| iri.starts_with(ns.as_str()))
    }
    /// Which file has this content? (absolute path)
    fn locate(&self, bytes: &[u8]) -> Option<PathBuf> {
        if let Some(rel) = self.sb.by_content.get(bytes) {
            return Some(self.sb.base.join(rel));
        }
        self.dynamic.get(bytes).cloned()
    }
    fn allowed(&self, iri: &str, file: &Path) -> bool {
        self.caches
            .iter()
            .any(|(ns, dir)| iri.starts_with(ns.as_str()) && file.starts_with(dir) && file != dir.as_path())
    }
    /// The property, for one `get`: Ok(bytes) ⇒ bytes is the content of a file inside
    /// a directory mapped to a namespace prefixing the IRI.
    fn check_get(&self, via: &str, iri: &str, res: &Result<Vec<u8>, String>, ctx: &mut Ctx) {
        match res {
            Err(k) => ctx.class(format!("{via}:err-{k}")),
            Ok(bytes) => match self.locate(bytes) {
                None => {
                    ctx.class(format!("{via}:ok-ESCAPED"));
                    ctx.fail(
                        format!("escape/{}", trigger(iri)),
                        format!(
                            "{via}: get(<{iri}>) returned {} bytes that are not the content of any file of the sandbox (a file outside every configured directory was read): {:?}",
                            bytes.len(),
                            String::from_utf8_lossy(&bytes[..bytes.len().min(80)])
                        ),
                    );
                }
                Some(p) => {
                    if self.allowed(iri, &p) {
                        ctx.class(format!("{via}:ok-inside"));
                    } else {
                        ctx.class(format!("{via}:ok-ESCAPED"));
                        let cfg: Vec<String> = self
                            .caches
                            .iter()
                            .map(|(ns, d)| format!("{ns} -> {}", d.display()))
                            .collect();
                        ctx.fail(
                            format!("escape/{}", trigger(iri)),
                            format!(
                                "{via}: get(<{iri}>) returned the content of {} which is not inside a directory mapped to a namespace prefixing the IRI; configuration: [{}]",
                                p.display(),
                                cfg.join(", ")
                            ),
                        );
                    }
                }
            },
        }
    }
    /// Model-side reading of what a naive join would open (used for class labels only).
    fn naive_target(&self, iri: &str) -> Option<PathBuf> {
        let no_frag = iri.split('#').next().unwrap();
        let (ns, dir) = self.caches.iter().find(|(ns, _)| no_frag.starts_with(ns.as_str()))?;
        let rem = &no_frag[ns.len()..];
        let mut cur: Vec<String> = if rem.starts_with('/') {
            vec![]
        } else {
            dir.components()
                .filter_map(|c| match c {
                    std::path::Component::Normal(s) => Some(s.to_str()?.to_string()),
                    _ => None,
                })
                .collect()
        };
        for s in rem.split('/') {
            match s {
                "" | "." => {}
                ".." => {
                    cur.pop();
                }
                x => cur.push(x.to_string()),
            }
        }
        Some(PathBuf::from(format!("/{}", cur.join("/"))))
    }
    fn classify(&self, iri: &str, ctx: &mut Ctx) -> bool {
        let p = iri_path(iri);
        let under = self.configured_prefix(iri);
        ctx.class(if under { "iri:under-configured-ns" } else { "iri:outside-configured-ns" });
        let segs: Vec<&str> = p.split('/').skip(1).collect();
        let dotdot = segs.iter().any(|s| *s == "..");
        let dot = segs.iter().any(|s| *s == ".");
        let empty = segs.len() > 1 && segs[..segs.len() - 1].iter().any(|s| s.is_empty());
        let pct = p.contains('%');
        if dotdot {
            ctx.class("iri:dotdot-segment");
        }
        if dot {
            ctx.class("iri:dot-segment");
        }
        if empty {
            ctx.class("iri:empty-segment");
        }
        if pct {
            ctx.class("iri:percent-encoded");
        }
        if iri.contains('#') {
            ctx.class("iri:fragment");
        }
        if segs.iter().any(|s| s.len() > 255) {
            ctx.class("iri:segment-longer-than-NAME_MAX");
        }
        if iri.len() > 4096 {
            ctx.class("iri:longer-than-PATH_MAX");
        }
        if under {
            if let Some(t) = self.naive_target(iri) {
                let with_ext = ["", ".ttl", ".nt", ".jsonld", ".rdf"]
                    .iter()
                    .map(|e| PathBuf::from(format!("{}{e}", t.display())))
                    .find(|p| p.is_file());
                if let Some(f) = with_ext {
                    if self.allowed(iri, &f) {
                        ctx.class("aim:existing-file-inside");
                    } else if f.starts_with(&self.sb.base) {
                        ctx.class("aim:existing-file-OUTSIDE(sandbox)");
                    } else {
                        ctx.class("aim:existing-file-OUTSIDE(system)");
                    }
                }
            }
        }
        under && (dotdot || dot || empty || pct)
    }
}

struct DynGuard(PathBuf);
impl Drop for DynGuard {
    fn drop(&mut self) {
        let _ = std::fs::remove_dir_all(&self.0);
    }
}

pub struct C19;

impl C19 {
    fn config(case: &Case) -> Vec<(String, String)> {
        let mut v: Vec<(String, String)> = case
            .caches
            .iter()
            .take(3)
            .map(|i| {
                let (ns, d) = CACHE_POOL[*i as usize % CACHE_POOL.len()];
                (ns.to_string(), d.to_string())
            })
            .collect();
        if v.is_empty() {
            v.push((CACHE_POOL[0].0.to_string(), CACHE_POOL[0].1.to_string()));
        }
        v
    }
}

fn valid_iri(s: &str) -> Option<Iri<String>> {
    Iri::new(s.to_string()).ok()
}

impl Check for C19 {
    type Case = Case;
    const ID: &'static str = "C19";
    fn rule() -> String {
        "case = configuration (1-3 namespace->directory pairs out of 7, nested/overlapping/duplicate namespaces, order significant) + up to 8 IRIs fetched with LocalLoader::get + up to 4 IRIs written as links into an N-Triples/Turtle/JSON-LD document inside the first root and followed with Resource::get_any_resource/get_resource (every Loader::get performed is spied). Non-trivial = the case contains at least one valid IRI under a configured namespace having a '..', '.', empty or percent-encoded path segment; distinct by hash of the case.".into()
    }
    fn assumptions() -> Vec<String> {
        vec![
            "only strings accepted by Iri::new are passed to the loader (the statement quantifies over IRIs); backslashes therefore only occur percent-encoded".into(),
            "the sandbox contains no symbolic links; races on the file system are not modelled".into(),
            "returned bytes identify the opened file because every sandbox file has a unique content; bytes that match no sandbox file (e.g. /etc/hostname) are reported as an escape".into(),
            "an error value of any kind is always acceptable (the statement allows 'reports an error'); a panic is reported".into(),
        ]
    }
    fn cases(tier: Tier) -> u32 {
        tier.pick(400_000, 12_000_000)
    }
    fn strategy(_tier: Tier) -> BoxedStrategy<Case> {
        let raw = (0..NS_POOL.len() as u8, prop::collection::vec(seg_idx(), 1..=6), tail_idx())
            .prop_map(|(ns, segs, tail)| IriSpec::Raw { ns, segs, tail });
        let target = (0..3u8, 0..DIRS.len() as u8, 0..FILES.len() as u8, 0..STYLES.len() as u8, tail_idx(), any::<bool>())
            .prop_map(|(slot, dir, file, style, tail, strip_ext)| IriSpec::Target { slot, dir, file, style, tail, strip_ext });
        let spec = prop_oneof![1 => raw, 1 => target].boxed();
        (
            prop::collection::vec(0..CACHE_POOL.len() as u8, 1..=3),
            prop::collection::vec(spec.clone(), 1..=8),
            prop::collection::vec(spec, 0..=4),
            0..4u8,
        )
            .prop_map(|(caches, direct, links, link_fmt)| Case { caches, direct, links, link_fmt })
            .boxed()
    }
    fn fixed_cases(_tier: Tier, _seed: u64) -> Vec<Case> {
        // every single configured pair x every existing file x every style, directly and as a link
        let mut v = vec![];
        for c in 0..CACHE_POOL.len() as u8 {
            for style in 0..STYLES.len() as u8 {
                for dir in 0..DIRS.len() as u8 {
                    let mk = |se: bool| -> Vec<IriSpec> {
                        (0..FILES.len() as u8)
                            .map(|file| IriSpec::Target { slot: 0, dir, file, style, tail: 0, strip_ext: se })
                            .collect()
                    };
                    v.push(Case { caches: vec![c], direct: mk(false), links: vec![], link_fmt: 0 });
                    v.push(Case { caches: vec![c], direct: mk(true), links: vec![], link_fmt: 0 });
                    for fmt in 0..3u8 {
                        v.push(Case { caches: vec![c], direct: vec![], links: mk(false)[..6].to_vec(), link_fmt: fmt });
                    }
                    // remote JSON-LD context: c.jsonld / h(.jsonld)
                    v.push(Case { caches: vec![c], direct: vec![], links: vec![IriSpec::Target { slot: 0, dir, file: 3, style, tail: 0, strip_ext: false }], link_fmt: 3 });
                    v.push(Case { caches: vec![c], direct: vec![], links: vec![IriSpec::Target { slot: 0, dir, file: 7, style, tail: 0, strip_ext: true }], link_fmt: 3 });
                }
            }
        }
        v
    }
    fn show(case: &Case) -> Value {
        let cfg = C19::config(case);
        let r = |s: &IriSpec| render(s, &cfg, "{T}");
        json!({
            "configuration": cfg.iter().map(|(n, d)| format!("{n} -> {{T}}/{d}")).collect::<Vec<_>>(),
            "direct": case.direct.iter().map(r).collect::<Vec<_>>(),
            "links": case.links.iter().map(r).collect::<Vec<_>>(),
            "link_document": (["links.nt", "links.ttl", "links.jsonld", "links.jsonld (first link is also its remote @context)"][case.link_fmt as usize % 4]),
        })
    }
    fn run(case: &Case, ctx: &mut Ctx) {
        let sb = Sandbox::get();
        let t = sb.t();
        let cfg = C19::config(case);
        let mut world = World {
            sb: &sb,
            caches: cfg.iter().map(|(ns, d)| (ns.clone(), sb.base.join(d))).collect(),
            dynamic: BTreeMap::new(),
        };
        ctx.class(format!("config:{}-roots", cfg.len()));
        {
            let nested = cfg.iter().enumerate().any(|(i, (a, _))| cfg.iter().enumerate().any(|(j, (b, _))| i != j && b.starts_with(a.as_str())));
            if nested {
                ctx.class("config:nested-or-overlapping-namespaces");
            }
        }
        // the same configuration is built either in one go (`new`) or step by step (`new` with the
        // first pair, then `add`): both must give the same loader
        let pairs: Vec<(Iri<MownStr<'static>>, std::path::PathBuf)> =
            world.caches.iter().map(|(ns, d)| (Iri::new_unchecked(MownStr::from(ns.clone())), d.clone())).collect();
        let incremental = (cfg.len() + case.direct.len()) % 2 == 1;
        ctx.class(if incremental { "construction:new+add" } else { "construction:new" });
        let built = if incremental {
            let mut it = pairs.into_iter();
            let first: Vec<_> = it.by_ref().take(1).collect();
            LocalLoader::new(first).and_then(|mut l| {
                for (ns, d) in it {
                    l.add(ns, d)?;
                }
                Ok(l)
            })
        } else {
            LocalLoader::new(pairs)
        };
        let loader = match built {
            Ok(l) => l,
            Err(e) => {
                ctx.fail("harness/loader-construction", format!("LocalLoader::new/add failed on a valid configuration: {e}"));
                return;
            }
        };
        let spy = Arc::new(Spy { inner: loader, log: Mutex::new(vec![]) });
        let mut nontrivial = false;

        // ---- IRIs from the caller
        for spec in &case.direct {
            let s = render(spec, &cfg, &t);
            let Some(iri) = valid_iri(&s) else {
                ctx.class("iri:rejected-by-Iri::new(skipped)");
                continue;
            };
            nontrivial |= world.classify(&s, ctx);
            match catch(|| spy.inner.get(iri.as_ref())) {
                Err(p) => ctx.fail(format!("loader-panic/{}", site(&p)), format!("get(<{s}>) panicked: {p}")),
                Ok(r) => {
                    let r = r.map(|(b, _)| b).map_err(|e| err_kind(&e).to_string());
                    world.check_get("direct", &s, &r, ctx);
                }
            }
        }

        // ---- IRIs found in loaded data
        let links: Vec<String> = case
            .links
            .iter()
            .map(|spec| render(spec, &cfg, &t))
            .filter(|s| {
                let ok = valid_iri(s).is_some();
                if !ok {
                    ctx.class("iri:rejected-by-Iri::new(skipped)");
                }
                ok
            })
            .collect();
        if !links.is_empty() {
            let (ns0, dir0) = world.caches[0].clone();
            let dyn_dir = dir0.join("dyn");
            let _ = std::fs::remove_dir_all(&dyn_dir);
            let _guard = DynGuard(dyn_dir.clone());
            std::fs::create_dir_all(&dyn_dir).expect("dyn dir");
            let fmt = case.link_fmt % 4;
            let ext = ["nt", "ttl", "jsonld", "jsonld"][fmt as usize];
            ctx.class(format!("links:via-{ext}{}", if fmt == 3 { "+remote-context" } else { "" }));
            let doc_iri = format!("{ns0}dyn/links.{ext}");
            let mut doc = String::new();
            match fmt {
                0 => {
                    for (i, l) in links.iter().enumerate() {
                        doc.push_str(&format!("<{doc_iri}> <http://ex/p{i}> <{l}> .\n"));
                    }
                }
                1 => {
                    doc.push_str("# MARK:dyn\n");
                    for (i, l) in links.iter().enumerate() {
                        doc.push_str(&format!("<> <http://ex/p{i}> <{l}> .\n"));
                    }
                }
                _ => {
                    let props: Vec<String> = links
                        .iter()
                        .enumerate()
                        .map(|(i, l)| format!("{}: {{\"@id\": {}}}", Value::String(format!("http://ex/p{i}")), Value::String(l.clone())))
                        .collect();
                    let context = if fmt == 3 {
                        format!("\"@context\": [{}], ", Value::String(links[0].clone()))
                    } else {
                        String::new()
                    };
                    doc = format!("{{{context}\"@id\": {}, {}}}\n", Value::String(doc_iri.clone()), props.join(", "));
                }
            }
            let path = dyn_dir.join(format!("links.{ext}"));
            std::fs::write(&path, doc.as_bytes()).expect("links file");
            world.dynamic.insert(doc.clone().into_bytes(), path);
            for l in &links {
                nontrivial |= world.classify(l, ctx);
            }
            let root: Result<Result<Resource<LightGraph, Spy>, LoaderError>, String> =
                catch(|| spy.get_resource::<_, LightGraph>(Iri::new_unchecked(doc_iri.as_str())));
            match root {
                Err(p) => ctx.fail(format!("loader-panic/{}", site(&p)), format!("get_resource(<{doc_iri}>) panicked: {p}")),
                Ok(Err(e)) => {
                    // e.g. the JSON-LD document's remote context could not be loaded
                    ctx.class(format!("links:document-not-loaded({})", err_kind(&e)));
                }
                Ok(Ok(res)) => {
                    ctx.class("links:document-loaded");
                    for (i, l) in links.iter().enumerate() {
                        let pred = Iri::new_unchecked(format!("http://ex/p{i}"));
                        let r = catch(|| {
                            if i % 2 == 0 {
                                res.get_any_resource(pred.as_ref())
                            } else {
                                res.get_resource(pred.as_ref()).map(Some)
                            }
                        });
                        match r {
                            Err(p) => ctx.fail(format!("loader-panic/{}", site(&p)), format!("following the link <{l}> panicked: {p}")),
                            Ok(Err(_)) => ctx.class("links:follow-error"),
                            Ok(Ok(None)) => ctx.class("links:no-such-link(normalised away by the parser)"),
                            Ok(Ok(Some(nb))) => {
                                ctx.class("links:followed");
                                world.check_graph(&doc_iri, l, &nb, ctx);
                            }
                        }
                    }
                }
            }
            let log = std::mem::take(&mut *spy.log.lock().unwrap_or_else(|e| e.into_inner()));
            for (iri, r) in &log {
                world.check_get("link", iri, r, ctx);
            }
        }
        if nontrivial {
            ctx.nontrivial();
        }
    }
}

impl World<'_> {
    /// No marker of a file outside the permitted directories may appear in a graph
    /// obtained by following a link.
    fn check_graph(&self, doc_iri: &str, link: &str, nb: &Resource<LightGraph, Spy>, ctx: &mut Ctx) {
        let Some(base) = nb.base() else { return };
        let loaded_from = base.as_str().to_string();
        if loaded_from == doc_iri {
            return; // same document: nothing was loaded
        }
        for tr in nb.graph().triples() {
            let Ok(tr) = tr else { continue };
            let Some(lex) = tr.o().lexical_form() else { continue };
            let Some(rel) = lex.strip_prefix("MARK:") else { continue };
            let file = self.sb.base.join(rel);
            if self.allowed(&loaded_from, &file) {
                ctx.class("links:graph-from-inside-file");
            } else {
                ctx.fail(
                    format!("escape/{}", trigger(&loaded_from)),
                    format!(
                        "following the link <{link}> found in <{doc_iri}> produced a graph (loaded from <{loaded_from}>) containing the marker of {}, a file outside the directories mapped to namespaces prefixing that IRI",
                        file.display()
                    ),
                );
            }
        }
    }
}

/// panic site relative to the repository (stable across checkouts)
fn site(msg: &str) -> String {
    let s = panic_site(msg);
    match s.find("/src/") {
        Some(i) => {
            let start = s[..i].rfind('/').map(|j| j + 1).unwrap_or(0);
            s[start..].to_string()
        }
        None => s,
    }
}

fn seg_idx() -> BoxedStrategy<u8> {
    // the first dozen entries (plain names, '..', '', '.', {T}) are the frequent ones
    prop_oneof![3 => 0..12u8, 1 => 0..SEG_POOL.len() as u8].boxed()
}
fn tail_idx() -> BoxedStrategy<u8> {
    prop_oneof![3 => Just(0u8), 2 => 0..TAILS.len() as u8].boxed()
}

pub fn main(opts: &Opts) -> i32 {
    let code = drive::<C19>(opts);
    drop_process_root();
    code
}
pub fn worker(_args: &[String]) -> i32 {
    2
}
