//! Exact dataset isomorphism on model quads: colour refinement + backtracking over
//! blank-node bijections. Blank nodes may occur anywhere (nested triples, graph names).
//! Datasets are compared as *sets* of quads (duplicates removed first).
#![allow(dead_code)]

use crate::model::*;
use std::collections::{BTreeMap, BTreeSet};

fn render(t: &MT, f: &dyn Fn(&str) -> String, out: &mut String) {
    match t {
        MT::Bnode(b) => {
            out.push_str("_:");
            out.push_str(&f(b));
        }
        MT::Triple(tr) => {
            out.push_str("<<");
            for x in tr.iter() {
                render(x, f, out);
                out.push(' ');
            }
            out.push_str(">>");
        }
        MT::Lang(l, tag) => {
            out.push_str(&format!("{l:?}@{}", tag.to_ascii_lowercase()));
        }
        other => out.push_str(&other.show()),
    }
}
fn render_quad(q: &MQ, f: &dyn Fn(&str) -> String) -> String {
    let mut s = String::new();
    render(&q.s, f, &mut s);
    s.push(' ');
    render(&q.p, f, &mut s);
    s.push(' ');
    render(&q.o, f, &mut s);
    s.push(' ');
    match &q.g {
        None => s.push_str("DEFAULT"),
        Some(g) => render(g, f, &mut s),
    }
    s
}

fn dedup_set(qs: &[MQ]) -> Vec<MQ> {
    let s: BTreeSet<MQ> = qs.iter().cloned().collect();
    s.into_iter().collect()
}

/// colour refinement on both datasets with a shared colour-id space
fn colours(a: &[MQ], b: &[MQ], la: &[String], lb: &[String]) -> (BTreeMap<String, usize>, BTreeMap<String, usize>) {
    let mut ca: BTreeMap<String, usize> = la.iter().map(|l| (l.clone(), 0)).collect();
    let mut cb: BTreeMap<String, usize> = lb.iter().map(|l| (l.clone(), 0)).collect();
    let rounds = la.len().max(1) + 1;
    let mut nclasses = 1;
    for _ in 0..rounds {
        let sig = |qs: &[MQ], col: &BTreeMap<String, usize>, me: &str| -> String {
            let mut v: Vec<String> = qs
                .iter()
                .filter(|q| q.bnodes().contains(&me))
                .map(|q| {
                    render_quad(q, &|x: &str| {
                        if x == me {
                            "@self".to_string()
                        } else {
                            format!("@c{}", col[x])
                        }
                    })
                })
                .collect();
            v.sort();
            format!("{}|{}", col[me], v.join("\n"))
        };
        let sa: BTreeMap<String, String> = la.iter().map(|l| (l.clone(), sig(a, &ca, l))).collect();
        let sb: BTreeMap<String, String> = lb.iter().map(|l| (l.clone(), sig(b, &cb, l))).collect();
        let all: BTreeSet<&String> = sa.values().chain(sb.values()).collect();
        let ids: BTreeMap<&String, usize> = all.into_iter().enumerate().map(|(i, s)| (s, i)).collect();
        ca = sa.iter().map(|(l, s)| (l.clone(), ids[s])).collect();
        cb = sb.iter().map(|(l, s)| (l.clone(), ids[s])).collect();
        let n = ids.len();
        if n == nclasses {
            break;
        }
        nclasses = n;
    }
    (ca, cb)
}

pub struct IsoStats {
    pub nodes_visited: u64,
}

/// Exact isomorphism; `budget` bounds the number of search nodes (None = unbounded).
/// Returns None when the budget is exhausted.
pub fn iso_exact_budget(a: &[MQ], b: &[MQ], budget: Option<u64>) -> Option<bool> {
    let a = dedup_set(a);
    let b = dedup_set(b);
    if a.len() != b.len() {
        return Some(false);
    }
    let la = all_bnodes(&a);
    let lb = all_bnodes(&b);
    if la.len() != lb.len() {
        return Some(false);
    }
    // ground quads must coincide
    let (ca, cb) = colours(&a, &b, &la, &lb);
    // colour histograms must agree
    let hist = |c: &BTreeMap<String, usize>| {
        let mut h: BTreeMap<usize, usize> = BTreeMap::new();
        for v in c.values() {
            *h.entry(*v).or_default() += 1;
        }
        h
    };
    let ha = hist(&ca);
    if ha != hist(&cb) {
        return Some(false);
    }
    // target set rendered with identity labels
    let bset: BTreeSet<String> = b.iter().map(|q| render_quad(q, &|x: &str| x.to_string())).collect();
    // order of assignment: small classes first
    let mut order: Vec<String> = la.clone();
    order.sort_by_key(|l| (ha[&ca[l]], ca[l], l.clone()));
    // per a-quad: list of its blank nodes
    let aq: Vec<(MQ, Vec<String>)> = a
        .iter()
        .map(|q| (q.clone(), q.bnodes().into_iter().map(|s| s.to_string()).collect()))
        .collect();
    let mut map: BTreeMap<String, String> = BTreeMap::new();
    let mut used: BTreeSet<String> = BTreeSet::new();
    let mut visited = 0u64;
    fn rec(
        i: usize,
        order: &[String],
        lb: &[String],
        ca: &BTreeMap<String, usize>,
        cb: &BTreeMap<String, usize>,
        aq: &[(MQ, Vec<String>)],
        bset: &BTreeSet<String>,
        map: &mut BTreeMap<String, String>,
        used: &mut BTreeSet<String>,
        visited: &mut u64,
        budget: Option<u64>,
    ) -> Option<bool> {
        if i == order.len() {
            return Some(true);
        }
        let me = &order[i];
        for cand in lb {
            if used.contains(cand) || cb[cand] != ca[me] {
                continue;
            }
            *visited += 1;
            if let Some(bud) = budget {
                if *visited > bud {
                    return None;
                }
            }
            map.insert(me.clone(), cand.clone());
            used.insert(cand.clone());
            // check quads that just became fully mapped
            let ok = aq.iter().all(|(q, bns)| {
                if !bns.contains(me) || !bns.iter().all(|x| map.contains_key(x)) {
                    return true;
                }
                let r = render_quad(q, &|x: &str| map[x].clone());
                bset.contains(&r)
            });
            if ok {
                match rec(i + 1, order, lb, ca, cb, aq, bset, map, used, visited, budget) {
                    Some(true) => return Some(true),
                    None => return None,
                    Some(false) => {}
                }
            }
            map.remove(me);
            used.remove(cand);
        }
        Some(false)
    }
    // ground quads (no blank nodes) must be in bset
    for (q, bns) in &aq {
        if bns.is_empty() && !bset.contains(&render_quad(q, &|x: &str| x.to_string())) {
            return Some(false);
        }
    }
    rec(0, &order, &lb, &ca, &cb, &aq, &bset, &mut map, &mut used, &mut visited, budget)
}

pub fn iso_exact(a: &[MQ], b: &[MQ]) -> bool {
    iso_exact_budget(a, b, None).unwrap()
}

/// Explain a difference for diagnostics: ground quads / sizes.
pub fn diff_summary(a: &[MQ], b: &[MQ]) -> String {
    let a = dedup_set(a);
    let b = dedup_set(b);
    let blank = |q: &MQ| render_quad(q, &|_: &str| "_".to_string());
    let mut sa: Vec<String> = a.iter().map(blank).collect();
    let mut sb: Vec<String> = b.iter().map(blank).collect();
    sa.sort();
    sb.sort();
    let only_a: Vec<&String> = sa.iter().filter(|x| !sb.contains(x)).collect();
    let only_b: Vec<&String> = sb.iter().filter(|x| !sa.contains(x)).collect();
    format!(
        "sizes {} vs {}, bnodes {} vs {}; (blanked) only in first: {:?}; only in second: {:?}",
        a.len(),
        b.len(),
        all_bnodes(&a).len(),
        all_bnodes(&b).len(),
        only_a,
        only_b
    )
}

#[cfg(test)]
mod test {
    use super::*;
    use crate::gen::*;
    fn q(s: MT, p: &str, o: MT) -> MQ {
        MQ::new(s, MT::iri(p), o, None)
    }
    #[test]
    fn cycles() {
        let c6 = Shape::Cycle(6).quads("a", "http://p", None);
        let c33 = Shape::TwoCycles(3).quads("b", "http://p", None);
        assert!(!iso_exact(&c6, &c33));
        assert!(iso_exact(&c6, &relabel(&c6, 5)));
        assert!(iso_exact(&c33, &relabel(&c33, 3)));
        let k = Shape::Clique(5).quads("k", "http://p", Some(MT::bn("g")));
        assert!(iso_exact(&k, &relabel(&k, 11)));
    }
    #[test]
    fn nested() {
        let a = vec![q(MT::triple(MT::bn("x"), MT::iri("http://p"), MT::bn("y")), "http://p", MT::bn("x"))];
        let b = vec![q(MT::triple(MT::bn("u"), MT::iri("http://p"), MT::bn("v")), "http://p", MT::bn("u"))];
        let c = vec![q(MT::triple(MT::bn("u"), MT::iri("http://p"), MT::bn("v")), "http://p", MT::bn("v"))];
        assert!(iso_exact(&a, &b));
        assert!(!iso_exact(&a, &c));
    }
}
