#![no_main]
mod common;
libfuzzer_sys::fuzz_target!(|data: &[u8]| {
    common::fuzz_one(&["nt","nq","gnq"], data);
});
