// Shared by the four fuzz targets: first byte selects the syntax variant and whether a base IRI
// is configured, the rest is the document. The in-target oracle is ../target_oracle.rs (the same
// file the harness uses); known findings (W/known_findings.json, property C08) are skipped so
// that the campaign continues behind them.
#[path = "../target_oracle.rs"]
mod target;

const BASES: &[&str] = &["http://example.org/base/doc", "http://[1::]/", "a:", "urn:x:y", "http://a/b/../c?q#f", "a:b/c", "http://[V1.a]/x"];

fn known() -> &'static Vec<String> {
    static K: std::sync::OnceLock<Vec<String>> = std::sync::OnceLock::new();
    K.get_or_init(|| {
        let p = std::env::var("C08_KNOWN").unwrap_or_else(|_| concat!(env!("CARGO_MANIFEST_DIR"), "/../known_findings.json").to_string());
        let txt = std::fs::read_to_string(p).unwrap_or_default();
        // tiny extraction of "signature": "..." values following "property": "C08" (no JSON crate here)
        let mut out = vec![];
        let mut rest = txt.as_str();
        while let Some(i) = rest.find("\"property\": \"C08\"") {
            rest = &rest[i + 10..];
            if let Some(j) = rest.find("\"signature\": \"") {
                let r2 = &rest[j + 14..];
                if let Some(e) = r2.find('"') {
                    out.push(r2[..e].to_string());
                }
            }
        }
        out
    })
}

fn guarded_catch(f: &mut dyn FnMut()) -> Result<(), String> {
    thread_local! { static LAST: std::cell::RefCell<Option<String>> = const { std::cell::RefCell::new(None) }; }
    static HOOK: std::sync::Once = std::sync::Once::new();
    HOOK.call_once(|| {
        std::panic::set_hook(Box::new(|info| {
            let loc = info.location().map(|l| format!("{}:{}", l.file(), l.line())).unwrap_or_default();
            let msg = if let Some(s) = info.payload().downcast_ref::<&str>() {
                s.to_string()
            } else if let Some(s) = info.payload().downcast_ref::<String>() {
                s.clone()
            } else {
                "<panic>".into()
            };
            LAST.with(|p| *p.borrow_mut() = Some(format!("{msg} @ {loc}")));
        }));
    });
    match std::panic::catch_unwind(std::panic::AssertUnwindSafe(|| f())) {
        Ok(()) => Ok(()),
        Err(_) => Err(LAST.with(|p| p.borrow_mut().take()).unwrap_or_else(|| "<panic>".into())),
    }
}

pub fn fuzz_one(syntaxes: &[&str], data: &[u8]) {
    if data.is_empty() {
        return;
    }
    let sel = data[0] as usize;
    let syntax = syntaxes[sel % syntaxes.len()];
    let b = (sel / syntaxes.len()) % (BASES.len() + 3);
    let base = if target::takes_base(syntax) { BASES.get(b).copied() } else { None };
    // Deep nesting is the business of the child-process stage of the harness (2 MiB stacks, known
    // findings stack/*): keep libFuzzer's own (sanitised, larger) frames away from it.
    let doc = &data[1..];
    let count = |b: u8| doc.iter().filter(|&&c| c == b).count();
    if syntax == "jsonld" {
        if count(b'[') + count(b'{') > 60 {
            return;
        }
    } else if count(b'[') > 300 || count(b'(') > 300 || count(b'{') > 300 || count(b'<') > 1200 {
        return;
    }
    let rep = target::run_target(syntax, base, doc, guarded_catch);
    for (key, detail) in &rep.problems {
        let sig = format!("{key}/{syntax}");
        if known().iter().any(|k| *k == sig) {
            continue;
        }
        eprintln!("C08-ORACLE {sig} base={base:?} : {detail}");
        std::process::abort();
    }
}
