//! In-target oracle of C08, shared by the harness (`harness/src/c08.rs` includes this file with
//! `#[path]`) and by the cargo-fuzz targets in this directory.
//!
//! `run_target` drives one parser over a byte string and re-validates every accessor value of
//! every yielded (nested) term with the toolkit's own validators.
#![allow(dead_code)]
use sophia_api::parser::{QuadParser, TripleParser};
use sophia_api::quad::Quad;
use sophia_api::source::{QuadSource, TripleSource};
use sophia_api::term::{BnodeId, LanguageTag, Term, TermKind, VarName};
use sophia_api::triple::Triple;
use sophia_iri::{Iri, IriRef};
use std::convert::Infallible;

pub const SYNTAXES: [&str; 8] = ["nt", "nq", "turtle", "trig", "gnq", "gtrig", "xml", "jsonld"];

pub fn is_generalized(syntax: &str) -> bool {
    matches!(syntax, "gnq" | "gtrig")
}
pub fn takes_base(syntax: &str) -> bool {
    matches!(syntax, "turtle" | "trig" | "gtrig" | "xml" | "jsonld")
}

/// `catch(f)` runs `f` and turns a panic into `Err("message @ file:line")`; the fuzz targets pass a
/// catcher that does not catch (so that libFuzzer sees the crash).
pub type Catcher = fn(&mut dyn FnMut()) -> Result<(), String>;

pub fn no_catch(f: &mut dyn FnMut()) -> Result<(), String> {
    f();
    Ok(())
}

fn guarded<R>(c: Catcher, f: impl FnOnce() -> R) -> Result<R, String> {
    let mut out = None;
    let mut f = Some(f);
    c(&mut || {
        if let Some(f) = f.take() {
            out = Some(f());
        }
    })?;
    out.ok_or_else(|| "closure did not run".to_string())
}

#[derive(Default, Debug, Clone)]
pub struct Report {
    pub statements: u64,
    pub terms: u64,
    pub source_error: Option<String>,
    /// (key, detail): key is `invalid-term/<accessor>/<shape>` or `panic/<site>`
    pub problems: Vec<(String, String)>,
    /// offending values of the invalid-term problems (same order as the invalid-term entries)
    pub values: Vec<String>,
    /// polls of the source after it had reported an error
    pub repolls: u64,
}

/// "…/rio/src/model.rs:45" -> "rio/src/model.rs"; registry crates keep their versioned directory name.
pub fn site_key(msg: &str) -> String {
    let site = msg.rsplit(" @ ").next().unwrap_or("");
    let file = site.rsplit_once(':').map(|(f, _)| f).unwrap_or(site);
    // tolerate "file:line:col"
    let file = match file.rsplit_once(':') {
        Some((f, l)) if l.chars().all(|c| c.is_ascii_digit()) && !l.is_empty() => f,
        _ => file,
    };
    match file.rfind("/src/") {
        Some(i) => {
            let start = file[..i].rfind('/').map(|k| k + 1).unwrap_or(0);
            file[start..].to_string()
        }
        None => file.rsplit('/').next().unwrap_or(file).to_string(),
    }
}

fn clip(s: &str) -> String {
    let mut out: String = s.chars().take(200).collect();
    if out.len() < s.len() {
        out.push('…');
    }
    format!("{out:?}")
}

fn problem(rep: &mut Report, key: &str, detail: String) {
    if rep.problems.len() < 8 {
        rep.problems.push((key.to_string(), detail));
    }
}

/// Call every accessor of `t` (recursively) and re-validate the values.
pub fn check_term<T: Term>(t: T, strict: bool, c: Catcher, rep: &mut Report, depth: usize) {
    let before = rep.problems.len();
    check_term_accessors(t.borrow_term(), strict, c, rep, depth);
    if depth == 0 && rep.problems.len() == before {
        // what every collector does with a yielded term (collect_triples, insert into a store):
        // copy it into an owned term; a term whose accessors are all fine can be copied without a panic
        if let Err(p) = guarded(c, || {
            let owned: sophia_api::term::SimpleTerm<'static> = t.borrow_term().into_term();
            owned.kind()
        }) {
            problem(rep, "invalid-term/cannot-be-copied", format!("copying the yielded term into a SimpleTerm panicked: {p}"));
        }
    }
}

fn check_term_accessors<T: Term>(t: T, strict: bool, c: Catcher, rep: &mut Report, depth: usize) {
    rep.terms += 1;
    let kind = match guarded(c, || t.kind()) {
        Ok(k) => k,
        Err(p) => return problem(rep, "invalid-term/kind", format!("kind() panicked: {p}")),
    };
    match kind {
        TermKind::Iri => match guarded(c, || t.iri().map(|i| i.as_str().to_string())) {
            Ok(Some(s)) => {
                let ok = if strict { Iri::new(s.as_str()).is_ok() } else { IriRef::new(s.as_str()).is_ok() };
                if !ok {
                    let rel = IriRef::new(s.as_str()).is_ok();
                    let what = if rel { "relative IRI reference yielded by a strict parser" } else { "rejected by IriRef::new" };
                    rep.values.push(s.clone());
                    problem(rep, if rel { "invalid-term/iri/relative" } else { "invalid-term/iri/malformed" }, format!("iri() = {} ({what})", clip(&s)));
                }
            }
            Ok(None) => problem(rep, "invalid-term/iri", "kind() = Iri but iri() = None".into()),
            Err(p) => problem(rep, "invalid-term/iri/malformed", format!("iri() panicked: {p}")),
        },
        TermKind::BlankNode => match guarded(c, || t.bnode_id().map(|i| i.as_str().to_string())) {
            Ok(Some(s)) => {
                if BnodeId::new(s.as_str()).is_err() {
                    rep.values.push(s.clone());
                    problem(rep, "invalid-term/bnode_id", format!("bnode_id() = {} rejected by BnodeId::new", clip(&s)));
                }
            }
            Ok(None) => problem(rep, "invalid-term/bnode_id", "kind() = BlankNode but bnode_id() = None".into()),
            Err(p) => problem(rep, "invalid-term/bnode_id", format!("bnode_id() panicked: {p}")),
        },
        TermKind::Variable => match guarded(c, || t.variable().map(|i| i.as_str().to_string())) {
            Ok(Some(s)) => {
                if VarName::new(s.as_str()).is_err() {
                    rep.values.push(s.clone());
                    problem(rep, "invalid-term/variable", format!("variable() = {} rejected by VarName::new", clip(&s)));
                }
            }
            Ok(None) => problem(rep, "invalid-term/variable", "kind() = Variable but variable() = None".into()),
            Err(p) => problem(rep, "invalid-term/variable", format!("variable() panicked: {p}")),
        },
        TermKind::Literal => {
            match guarded(c, || t.lexical_form().map(|l| l.bytes().fold(0u64, |a, b| a.wrapping_mul(31).wrapping_add(b as u64)))) {
                Ok(Some(_)) => {}
                Ok(None) => problem(rep, "invalid-term/lexical_form", "kind() = Literal but lexical_form() = None".into()),
                Err(p) => problem(rep, "invalid-term/lexical_form", format!("lexical_form() panicked: {p}")),
            }
            match guarded(c, || t.datatype().map(|i| i.as_str().to_string())) {
                Ok(Some(s)) => {
                    let ok = if strict { Iri::new(s.as_str()).is_ok() } else { IriRef::new(s.as_str()).is_ok() };
                    if !ok {
                        rep.values.push(s.clone());
                        problem(rep, "invalid-term/datatype", format!("datatype() = {} rejected by the IRI validator", clip(&s)));
                    }
                }
                Ok(None) => problem(rep, "invalid-term/datatype", "kind() = Literal but datatype() = None".into()),
                Err(p) => problem(rep, "invalid-term/datatype", format!("datatype() panicked: {p}")),
            }
            match guarded(c, || t.language_tag().map(|l| l.as_str().to_string())) {
                Ok(Some(s)) => {
                    if LanguageTag::new(s.as_str()).is_err() {
                        rep.values.push(s.clone());
                        problem(rep, "invalid-term/language_tag", format!("language_tag() = {} rejected by LanguageTag::new", clip(&s)));
                    }
                }
                Ok(None) => {}
                Err(p) => problem(rep, "invalid-term/language_tag", format!("language_tag() panicked: {p}")),
            }
        }
        TermKind::Triple => {
            if depth > 10_000 {
                return;
            }
            match guarded(c, || t.triple().is_some()) {
                Ok(true) => {
                    if let Some([s, p, o]) = t.triple() {
                        check_term(s, strict, c, rep, depth + 1);
                        check_term(p, strict, c, rep, depth + 1);
                        check_term(o, strict, c, rep, depth + 1);
                    }
                }
                Ok(false) => problem(rep, "invalid-term/triple", "kind() = Triple but triple() = None".into()),
                Err(p) => problem(rep, "invalid-term/triple", format!("triple() panicked: {p}")),
            }
        }
    }
}

fn drive_triples<S: TripleSource>(mut src: S, strict: bool, c: Catcher, rep: &mut Report) {
    let r = src.try_for_each_triple(|t| -> Result<(), Infallible> {
        rep.statements += 1;
        check_term(t.s(), strict, c, rep, 0);
        check_term(t.p(), strict, c, rep, 0);
        check_term(t.o(), strict, c, rep, 0);
        Ok(())
    });
    if let Err(e) = r {
        rep.source_error = Some(e.to_string().chars().take(200).collect());
        // a consumer may poll a failed source again (a drain loop that logs errors and goes on):
        // whatever it answers, it must not panic (what it yields then is not judged)
        for _ in 0..3 {
            rep.repolls += 1;
            if let Ok(false) = src.try_for_some_triple(|_| -> Result<(), Infallible> { Ok(()) }) {
                break;
            }
        }
    }
}

fn drive_quads<S: QuadSource>(mut src: S, strict: bool, c: Catcher, rep: &mut Report) {
    let r = src.try_for_each_quad(|q| -> Result<(), Infallible> {
        rep.statements += 1;
        check_term(q.s(), strict, c, rep, 0);
        check_term(q.p(), strict, c, rep, 0);
        check_term(q.o(), strict, c, rep, 0);
        if let Some(g) = q.g() {
            check_term(g, strict, c, rep, 0);
        }
        Ok(())
    });
    if let Err(e) = r {
        rep.source_error = Some(e.to_string().chars().take(200).collect());
        for _ in 0..3 {
            rep.repolls += 1;
            if let Ok(false) = src.try_for_some_quad(|_| -> Result<(), Infallible> { Ok(()) }) {
                break;
            }
        }
    }
}

/// Run parser `syntax` over `data` with the optional base IRI (must be accepted by `Iri::new`,
/// otherwise it is ignored).
pub fn run_target(syntax: &str, base: Option<&str>, data: &[u8], c: Catcher) -> Report {
    use sophia_turtle::parser::{gnq, gtrig, nq, nt, trig, turtle};
    let mut rep = Report::default();
    let base: Option<Iri<String>> = base.and_then(|b| Iri::new(b.to_string()).ok());
    let base_given = base.is_some();
    let strict = !is_generalized(syntax);
    let r = {
        let rep = &mut rep;
        guarded(c, move || match syntax {
            "nt" => drive_triples(nt::NTriplesParser {}.parse(data), strict, c, rep),
            "nq" => drive_quads(nq::NQuadsParser {}.parse(data), strict, c, rep),
            "turtle" => drive_triples(turtle::TurtleParser { base }.parse(data), strict, c, rep),
            "trig" => drive_quads(trig::TriGParser { base }.parse(data), strict, c, rep),
            "gnq" => drive_quads(gnq::GNQuadsParser {}.parse(data), strict, c, rep),
            "gtrig" => drive_quads(gtrig::GTriGParser { base }.parse(data), strict, c, rep),
            "xml" => drive_triples(sophia_xml::parser::RdfXmlParser { base }.parse(data), strict, c, rep),
            "jsonld" => {
                let mut opts = sophia_jsonld::JsonLdOptions::new();
                if let Some(b) = base {
                    opts = opts.with_base(b.map_unchecked(std::sync::Arc::from));
                }
                let p = sophia_jsonld::JsonLdParser::new_with_options(opts);
                drive_quads(p.parse(data), strict, c, rep)
            }
            other => panic!("unknown syntax {other}"),
        })
    };
    if let Err(p) = r {
        // a panic while polling a source that had already reported an error is keyed apart
        // (so that a recorded finding about re-polling never covers a panic on the first pass)
        // (rio_turtle's parsers keep the partially built statement of a failed step and trip over it at the
        // next step, in a dozen assertion sites: one root cause, one key per syntax)
        let key = if rep.repolls > 0 {
            let site = site_key(&p);
            if ["rio_turtle-", "rio_xml-", "rio_api-", "oxiri-", "oxilangtag-", "quick-xml-"].iter().any(|c| site.starts_with(c)) {
                // (the dirty state also reaches the crates rio calls, e.g. a buffer holding two IRIs
                // glued together is sliced by oxiri in the middle of a character)
                "panic-after-error/rio_turtle".to_string()
            } else {
                format!("panic-after-error/{site}")
            }
        } else {
            format!("panic/{}", site_key(&p))
        };
        problem(&mut rep, &key, format!("parser panicked: {p}"));
    }
    // refine the keys of invalid-term problems with the trigger found in the *input document*,
    // so that a known finding only covers the construct that is known to cause it
    let had_base = base_given;
    for p in rep.problems.iter_mut() {
        if let Some(t) = trigger(syntax, had_base, data, &p.0) {
            p.0 = format!("{}/{t}", p.0);
        }
    }
    rep
}

/// Trigger class of an invalid-term problem, computed from the input document only.
/// `None`: no refinement for this (key, syntax).
pub fn trigger(syntax: &str, had_base: bool, data: &[u8], key: &str) -> Option<&'static str> {
    let text = String::from_utf8_lossy(data);
    let iri_like = key == "invalid-term/iri/malformed" || key == "invalid-term/iri/relative" || key == "invalid-term/datatype";
    let turtle_like = matches!(syntax, "turtle" | "trig" | "gtrig");
    if iri_like && turtle_like {
        if syntax == "gtrig" && !had_base {
            // rio_turtle's GTriGParser validates no IRI at all without a base
            return Some("no-base");
        }
        // rio_turtle never validates the IRI obtained by expanding a prefixed name (known);
        // an IRIREF written in the document is validated by rio (oxiri): if sophia's validator
        // rejects one of those, validator and parser disagree, which is a different defect
        return Some(if has_iriref_rejected_by_validator(&text) { "iriref-rejected-by-validator" } else { "pname-expansion" });
    }
    if iri_like && syntax == "xml" {
        // rio_xml expands element / attribute names with namespace IRIs it never validates, accepts
        // ill-formed names (quick-xml is lenient) and yields relative references unresolved when no
        // base is known: several third-party root causes that cannot be told apart reliably from the
        // document, so these keys are not refined (the known findings for them are broad)
        let _ = (has_bad_xmlns(&text), has_ill_formed_tag(&text));
        return None;
    }
    if key == "invalid-term/bnode_id" && turtle_like {
        return Some(if label_dot_nonascii(&text) { "label-dot-nonascii" } else { "other" });
    }
    if key == "invalid-term/bnode_id" && syntax == "xml" {
        return Some(if nodeid_trailing_dot(&text) { "nodeid-trailing-dot" } else { "other" });
    }
    None
}

/// some `<...>` token of the document (outside string literals, roughly) that rio's IRI parser
/// (oxiri) accepts but the toolkit's own IRI-reference validator rejects
fn has_iriref_rejected_by_validator(text: &str) -> bool {
    let mut in_string: Option<char> = None;
    let mut chars = text.char_indices().peekable();
    while let Some((i, c)) = chars.next() {
        match in_string {
            Some(q) => {
                if c == '\\' {
                    chars.next();
                } else if c == q {
                    in_string = None;
                }
            }
            None => match c {
                '"' | '\'' => in_string = Some(c),
                '#' => {
                    // comment: skip to end of line
                    for (_, d) in chars.by_ref() {
                        if d == '\n' || d == '\r' {
                            break;
                        }
                    }
                }
                '<' => {
                    let rest = &text[i + 1..];
                    if rest.starts_with('<') {
                        continue; // quoted triple delimiter
                    }
                    if let Some(end) = rest.find(|d: char| d == '>' || d == '<' || d.is_whitespace()) {
                        if rest[end..].starts_with('>') {
                            let body = &rest[..end];
                            if !body.contains('\\') && IriRef::new(body).is_err() && oxiri::IriRef::parse(body).is_ok() {
                                return true;
                            }
                        }
                    }
                }
                _ => {}
            },
        }
    }
    false
}

/// a backslash followed by one of the PN_LOCAL_ESC characters (prefixed name with an escaped local part)
#[allow(dead_code)]
fn has_escaped_local(text: &str) -> bool {
    let b = text.as_bytes();
    b.windows(2).any(|w| w[0] == b'\\' && b"_~.-!$&'()*+,;=/?#@%".contains(&w[1]))
}

/// some xmlns / xmlns:p attribute whose value is not an absolute IRI
fn has_bad_xmlns(text: &str) -> bool {
    let mut rest = text;
    while let Some(i) = rest.find("xmlns") {
        rest = &rest[i + 5..];
        let Some(eq) = rest.find('=') else { return false };
        // only a (possibly prefixed) attribute name may sit between "xmlns" and '='
        if rest[..eq].chars().any(|c| c.is_whitespace() && c != ' ') && rest[..eq].trim().contains(' ') {
            continue;
        }
        let after = rest[eq + 1..].trim_start();
        let Some(q) = after.chars().next().filter(|c| *c == '"' || *c == '\'') else { continue };
        let body = &after[1..];
        let Some(end) = body.find(q) else { return true };
        if Iri::new(&body[..end]).is_err() {
            return true;
        }
    }
    false
}

/// a tag in which another '<' occurs outside quoted attribute values, or whose element /
/// attribute names contain characters that no XML Name may contain (quick-xml is lenient; the
/// name is then expanded with its namespace into an IRI that nobody validates)
fn has_ill_formed_tag(text: &str) -> bool {
    let b = text.as_bytes();
    let mut i = 0;
    while i < b.len() {
        if b[i] == b'<' && i + 1 < b.len() && b[i + 1] != b'?' && b[i + 1] != b'!' {
            let mut j = i + 1;
            let mut quote: Option<u8> = None;
            while j < b.len() {
                let c = b[j];
                match quote {
                    Some(q) if c == q => quote = None,
                    Some(_) => {}
                    None => match c {
                        b'"' | b'\'' => quote = Some(c),
                        b'>' => break,
                        b'<' | b'{' | b'}' | b'|' | b'^' | b'`' | b'\\' | b'[' | b']' | b'(' | b')' | b'%' | b'#' | b'@' | b'!' | b'$' | b'&' | b'*' | b'+' | b',' | b';' | b'~' => return true,
                        _ => {}
                    },
                }
                j += 1;
            }
            if quote.is_some() {
                return true;
            }
            i = j;
        }
        i += 1;
    }
    false
}

/// `_:label.` immediately followed by a non-ASCII character
fn label_dot_nonascii(text: &str) -> bool {
    let mut rest = text;
    while let Some(i) = rest.find("_:") {
        rest = &rest[i + 2..];
        let mut prev_dot = false;
        for c in rest.chars() {
            if c == '.' {
                prev_dot = true;
            } else if prev_dot && !c.is_ascii() {
                return true;
            } else if c.is_whitespace() || matches!(c, '<' | '>' | '"' | ';' | ',' | '(' | ')' | '[' | ']' | '{' | '}') {
                break;
            } else {
                prev_dot = false;
            }
        }
    }
    false
}

/// an rdf:nodeID attribute whose value ends with '.'
fn nodeid_trailing_dot(text: &str) -> bool {
    let mut rest = text;
    while let Some(i) = rest.find("nodeID") {
        rest = &rest[i + 6..];
        let after = rest.trim_start();
        let Some(after) = after.strip_prefix('=') else { continue };
        let after = after.trim_start();
        let Some(q) = after.chars().next().filter(|c| *c == '"' || *c == '\'') else { continue };
        let body = &after[1..];
        if let Some(end) = body.find(q) {
            if body[..end].ends_with('.') {
                return true;
            }
        }
    }
    false
}
